// Package cryptoutil holds what the C13-C16 drivers share: running the node's
// own distributed key generation to obtain a real group (member secret
// shares, public shares, group public key), and the mapping of real byte
// strings to small class ids for the TLA+ monitors.
package cryptoutil

import (
	"bytes"
	"fmt"
	"math/big"
	"math/rand"
	"sync"

	"com.tuntun.rangers/node/src/common"
	"com.tuntun.rangers/node/src/consensus/base"
	"com.tuntun.rangers/node/src/consensus/groupsig"
	bn "com.tuntun.rangers/node/src/consensus/groupsig/bn256"
	"com.tuntun.rangers/node/src/consensus/logical/group_create"
	"com.tuntun.rangers/node/src/consensus/model"
	"com.tuntun.rangers/node/src/middleware/types"
)

// Delivery is one share piece handed to a member's handleSharePiece.
type Delivery struct {
	To   int  `json:"to"`   // receiver, 1-based member index
	From int  `json:"from"` // dealer, 1-based member index
	Rc   int  `json:"rc"`   // return code of handleSharePiece
	Dup  bool `json:"dup"`  // the harness re-delivered a piece already handed over
	// observed on the real node right after the call
	Count int  `json:"count"` // pieces stored by the receiver
	Ready bool `json:"ready"` // receiver holds a valid aggregated secret share and group key
}

// Group is a group produced by the node's DKG code.
type Group struct {
	N          int
	Miners     []*model.SelfMinerInfo
	IDs        []groupsig.ID
	Nodes      []*group_create.VerifDKGNode
	Info       *model.GroupInitInfo
	Deliveries []Delivery
	SignSK     []groupsig.Seckey // member secret shares
	SignPK     []groupsig.Pubkey // member public shares (GeneratePubkey(SignSK))
	GPK        []groupsig.Pubkey // group public key as aggregated by each member
	SeedPK     []groupsig.Pubkey // dealers' constant-coefficient public keys
	K          int               // threshold the DKG nodes derived
	Redeals    []Redeal          // dealers whose group context was rebuilt in the middle of the exchange
}

// Redeal records that a dealer's context was built a second time (restart, eviction from the context
// cache) and what it dealt then.
type Redeal struct {
	Dealer     int  `json:"dealer"`
	SamePieces bool `json:"samePieces"` // the second GenSharePieces output equals the first, piece by piece
	SameSeedPK bool `json:"sameSeedPk"`
	After      int  `json:"after"` // pieces of this dealer delivered from the first output
}

// Opts shapes the group RunDKGOpts builds.
type Opts struct {
	// IDStyle: "random" (32 random bytes; member 1 sometimes with leading zero bytes), "tagged"
	// (2-byte tag that depends on the member index only, random middle, fixed 3-byte tail: different
	// groups agree pairwise on the first 2 and last 3 bytes), "shifted" (small integer shifted left by
	// Shift bytes: zero in the top 2 and bottom 3 bytes), "congruent" (member 2's id = member 1's id +
	// the group order), "zeroModOrder" (member 1's id = the group order).
	IDStyle string
	Shift   int
	// Redealers: this many dealers have their context rebuilt after part of their pieces was delivered;
	// the remaining receivers get the pieces of the second context.
	Redealers int
	// Miners: build the group from these miners (same ids, same long-term secrets) instead of fresh ones:
	// a second group with the same membership gets other share keys (they depend on the group hash).
	Miners []*model.SelfMinerInfo
	// ConcurrentDeal: the dealers of the group deal at the same time, each in its own goroutine.
	ConcurrentDeal bool
}

// idFor builds member i's id (0-based) in the given style.
func idFor(rng *rand.Rand, style string, shift int, i int, prev []groupsig.ID) groupsig.ID {
	b := make([]byte, 32)
	switch style {
	case "tagged":
		rng.Read(b)
		b[0], b[1] = 0x7a, byte(0x10+i)
		b[29], b[30], b[31] = 0xc3, 0x5e, 0x01
	case "shifted":
		if shift < 3 {
			shift = 3
		}
		if shift > 27 {
			shift = 27
		}
		b[31-shift] = byte(i + 1)
	case "congruent":
		rng.Read(b)
		b[0] &= 0x3f // below 2^254: id + order still fits in 256 bits
		if i == 1 {
			v := new(big.Int).Add(prev[0].GetBigInt(), bn.Order)
			v.FillBytes(b)
		}
	case "zeroModOrder":
		rng.Read(b)
		if i == 0 {
			bn.Order.FillBytes(b)
		}
	default:
		rng.Read(b)
		if i == 0 {
			for z := 0; z < rng.Intn(3); z++ {
				b[z] = 0
			}
		}
	}
	if b[31] == 0 && style != "shifted" && style != "congruent" && style != "zeroModOrder" {
		b[31] = 1
	}
	return groupsig.DeserializeID(b)
}

// NewMiner makes a miner identity from seeded randomness. zeroLead forces the
// id to start with that many zero bytes (ID.Serialize pads, big.Int drops them).
func NewMiner(rng *rand.Rand, zeroLead int) *model.SelfMinerInfo {
	seed := make([]byte, 32)
	rng.Read(seed)
	idb := make([]byte, 32)
	rng.Read(idb)
	for i := 0; i < zeroLead && i < 31; i++ {
		idb[i] = 0
	}
	if idb[31] == 0 {
		idb[31] = 1
	}
	mi := &model.SelfMinerInfo{}
	mi.SecretSeed = base.RandFromBytes(seed)
	mi.SecKey = *groupsig.NewSeckeyFromRand(mi.SecretSeed)
	mi.PubKey = *groupsig.GeneratePubkey(mi.SecKey)
	mi.ID = groupsig.DeserializeID(idb)
	mi.Stake = 1
	return mi
}

// RunDKG creates n miners and runs the node's group key generation among
// them: every member deals share pieces to every member (itself included), the
// pieces are delivered in a seeded random order, a few of them twice.
func RunDKG(rng *rand.Rand, n int, tag string) (*Group, error) {
	return RunDKGOpts(rng, n, tag, Opts{})
}

// PanicError: the node's code panicked during the key generation.
type PanicError struct{ What string }

func (e *PanicError) Error() string { return "panic: " + e.What }

// RunDKGOpts is RunDKG with a choice of member ids and with dealers that deal a second time.
func RunDKGOpts(rng *rand.Rand, n int, tag string, o Opts) (*Group, error) {
	g := &Group{N: n}
	for i := 0; i < n; i++ {
		if i < len(o.Miners) {
			g.Miners = append(g.Miners, o.Miners[i])
			g.IDs = append(g.IDs, o.Miners[i].ID)
			continue
		}
		mi := NewMiner(rng, 0)
		mi.ID = idFor(rng, o.IDStyle, o.Shift, i, g.IDs)
		g.Miners = append(g.Miners, mi)
		g.IDs = append(g.IDs, mi.ID)
	}
	gh := &types.GroupHeader{
		Parent:        []byte("verif-parent"),
		PreGroup:      []byte("verif-pre"),
		MemberRoot:    model.GenGroupMemberRoot(g.IDs),
		CreateHeight:  uint64(10 + rng.Intn(1000)),
		WorkHeight:    0,
		DismissHeight: 1 << 40,
		Extends:       tag,
	}
	gh.Hash = gh.GenHash()
	g.Info = &model.GroupInitInfo{GroupHeader: gh, GroupMembers: g.IDs}
	for i := 0; i < n; i++ {
		node := group_create.VerifNewDKGNode(g.Miners[i], g.Info)
		if node == nil {
			return nil, fmt.Errorf("newGroupInitContext returned nil")
		}
		g.Nodes = append(g.Nodes, node)
	}
	g.K = g.Nodes[0].Threshold()
	// dealing
	pieces := make([]map[string]model.SharePiece, n)
	if o.ConcurrentDeal {
		// every dealer deals in a goroutine of its own, all released together
		var wg sync.WaitGroup
		start := make(chan struct{})
		panics := make([]string, n)
		for i := 0; i < n; i++ {
			wg.Add(1)
			go func(i int) {
				defer wg.Done()
				defer func() {
					if r := recover(); r != nil {
						panics[i] = fmt.Sprint(r)
					}
				}()
				<-start
				pieces[i] = g.Nodes[i].GenSharePieces()
			}(i)
		}
		close(start)
		wg.Wait()
		for i := 0; i < n; i++ {
			if panics[i] != "" {
				return nil, &PanicError{What: "GenSharePieces of dealer " + fmt.Sprint(i+1) + ": " + panics[i]}
			}
		}
	}
	for i := 0; i < n; i++ {
		if !o.ConcurrentDeal {
			pieces[i] = g.Nodes[i].GenSharePieces()
		}
		g.SeedPK = append(g.SeedPK, g.Nodes[i].SeedPubKey())
	}
	// delivery in random order, with some duplicates
	type pair struct{ to, from int }
	var order []pair
	for to := 0; to < n; to++ {
		for from := 0; from < n; from++ {
			order = append(order, pair{to, from})
		}
	}
	rng.Shuffle(len(order), func(a, b int) { order[a], order[b] = order[b], order[a] })
	// dealers that will deal a second time, after this many of their pieces went out
	redealAfter := map[int]int{}
	for d := 0; d < o.Redealers && d < n; d++ {
		redealAfter[n-1-d] = 1 + rng.Intn(n-1)
	}
	sent := make([]int, n)
	delivered := map[pair]bool{}
	for _, p := range order {
		if after, ok := redealAfter[p.from]; ok && sent[p.from] == after {
			// the dealer's group context is built again for the same miner and the same group
			// (restart in the middle of the exchange, eviction from the context cache) and deals again
			second := group_create.VerifNewDKGNode(g.Miners[p.from], g.Info)
			if second == nil {
				return nil, fmt.Errorf("newGroupInitContext returned nil on re-deal")
			}
			again := second.GenSharePieces()
			same := len(again) == len(pieces[p.from])
			for k, v := range pieces[p.from] {
				w, ok := again[k]
				if !ok || !w.IsEqual(v) {
					same = false
				}
			}
			g.Redeals = append(g.Redeals, Redeal{Dealer: p.from + 1, SamePieces: same,
				SameSeedPK: second.SeedPubKey().IsEqual(g.SeedPK[p.from]), After: after})
			pieces[p.from] = again
			delete(redealAfter, p.from)
		}
		sent[p.from]++
		piece, ok := pieces[p.from][g.IDs[p.to].GetHexString()]
		if !ok {
			return nil, fmt.Errorf("dealer %d produced no piece for member %d", p.from+1, p.to+1)
		}
		rc := g.Nodes[p.to].HandleSharePiece(g.IDs[p.from], piece)
		obs := func(rc int, dup bool) Delivery {
			nd := g.Nodes[p.to]
			return Delivery{To: p.to + 1, From: p.from + 1, Rc: rc, Dup: dup, Count: nd.ReceivedCount(),
				Ready: nd.SignSecKey().IsValid() && nd.GroupPubKey().IsValid()}
		}
		g.Deliveries = append(g.Deliveries, obs(rc, false))
		delivered[p] = true
		if rng.Intn(8) == 0 { // re-deliver a piece this member already has
			rc2 := g.Nodes[p.to].HandleSharePiece(g.IDs[p.from], piece)
			g.Deliveries = append(g.Deliveries, obs(rc2, true))
		}
	}
	for i := 0; i < n; i++ {
		sk := g.Nodes[i].SignSecKey()
		g.SignSK = append(g.SignSK, sk)
		g.SignPK = append(g.SignPK, *groupsig.GeneratePubkey(sk))
		g.GPK = append(g.GPK, g.Nodes[i].GroupPubKey())
	}
	return g, nil
}

// Classes maps byte strings to small class ids (1, 2, ...) in order of first
// appearance: equal bytes <=> equal class.
type Classes struct{ seen [][]byte }

func (c *Classes) Of(b []byte) int {
	for i, s := range c.seen {
		if bytes.Equal(s, b) {
			return i + 1
		}
	}
	c.seen = append(c.seen, append([]byte(nil), b...))
	return len(c.seen)
}

// Ints converts bytes to a JSON-friendly int slice.
func Ints(b []byte) []int {
	out := make([]int, len(b))
	for i, x := range b {
		out[i] = int(x)
	}
	return out
}

// HashOf gives a deterministic 32-byte hash for a small message id.
func HashOf(tag string, i int) common.Hash {
	return base.Data2CommonHash([]byte(fmt.Sprintf("verif-%s-%d", tag, i)))
}
