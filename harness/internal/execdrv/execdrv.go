// Package execdrv executes real blocks of real transactions through the
// node's executors (core.VMExecutor via hook H4) on states opened at the dev
// genesis root, and offers the projections the ledger-level properties need
// (C01, C06, C20). Nothing is committed: every history starts from a fresh
// AccountDB opened at the genesis state root.
package execdrv

import (
	"fmt"
	"math/big"
	"time"

	"com.tuntun.rangers/node/src/common"
	"com.tuntun.rangers/node/src/core"
	"com.tuntun.rangers/node/src/middleware"
	"com.tuntun.rangers/node/src/middleware/types"
	"com.tuntun.rangers/node/src/storage/account"
	"verif/harness/internal/vutil"
)

var (
	GenesisRoot  common.Hash
	GenesisTime  time.Time
	GenesisGroup []byte
	Castor       = common.FromHex("0x7f88b4f2d36a83640ce5d782a0a20cc2b233de3df2d8a358bf0e7b29e9586a12")
	// Funded dev accounts (1e9 RPG each in the dev genesis) and one poor account (2 RPG).
	Funded = []string{
		"0x2f4f09b722a6e5b77be17c9a99c785fa7035a09f",
		"0x42c8c9b13fc0573d18028b3398a887c4297ff646",
		"0x25716527aad0ae1dd24bd247af9232dae78595b0",
		"0x8744c51069589296fcb7faa2f891b1f513a0310c",
	}
	Poor = "0x7edd0ef9da9cec334a7887966cc8dd71d590eeb7"
)

// Boot boots the chain in dir and records the genesis coordinates.
func Boot(dir string) {
	vutil.BootChain(dir, nil)
	top := core.GetBlockChain().TopBlock()
	GenesisRoot = top.StateTree
	GenesisTime = top.CurTime
	GenesisGroup = core.GetGroupChain().GetGroupByHeight(0).Id
}

// FreshState opens a new AccountDB at the genesis root.
func FreshState() *account.AccountDB {
	st, err := middleware.AccountDBManagerInstance.GetAccountDBByHash(GenesisRoot)
	if err != nil {
		vutil.Fatalf("open genesis state: %v", err)
	}
	return st
}

// Header builds a block header for the given height.
func Header(height uint64) *types.BlockHeader {
	return &types.BlockHeader{
		Height:     height,
		CurTime:    GenesisTime.Add(time.Duration(height) * time.Second),
		PreTime:    GenesisTime.Add(time.Duration(height-1) * time.Second),
		ProveValue: big.NewInt(1),
		TotalQN:    height,
		Castor:     Castor,
		GroupId:    GenesisGroup,
		Nonce:      core.ChainDataVersion,
		RequestIds: map[string]uint64{},
	}
}

// Result of executing one block.
type Result struct {
	Root     common.Hash
	Evicted  []common.Hash
	Executed []*types.Transaction
	Receipts []*types.Receipt
}

// Execute runs the block's transactions on state exactly as block verification does.
func Execute(state *account.AccountDB, height uint64, txs []*types.Transaction) *Result {
	blk := &types.Block{Header: Header(height), Transactions: txs}
	root, evicted, executed, receipts := core.VerifExecuteBlock(state, blk, "fullverify")
	return &Result{root, evicted, executed, receipts}
}

// Ok reports per transaction hash whether it was executed successfully.
func (r *Result) Ok(h common.Hash) bool {
	for _, rc := range r.Receipts {
		if rc.TxHash == h {
			return rc.Status == types.ReceiptStatusSuccessful
		}
	}
	return false
}

// Digits returns n as little-endian base-10000 digits (for BigNat in TLA+).
func Digits(n *big.Int) []int {
	out := []int{}
	if n == nil || n.Sign() <= 0 {
		return out
	}
	x := new(big.Int).Set(n)
	base := big.NewInt(10000)
	m := new(big.Int)
	for x.Sign() > 0 {
		x.DivMod(x, base, m)
		out = append(out, int(m.Int64()))
	}
	return out
}

// Tokens returns floor(n / 1e18) as an int (balances of the dev genesis fit).
func Tokens(n *big.Int) int {
	if n == nil {
		return 0
	}
	q := new(big.Int).Div(n, new(big.Int).Exp(big.NewInt(10), big.NewInt(18), nil))
	if !q.IsInt64() || q.Int64() > 2000000000 {
		return 2000000000
	}
	return int(q.Int64())
}

// NewTx builds a transaction skeleton with a unique hash; seq orders the
// transactions of a block (Transactions.Less sorts request-id transactions by id).
func NewTx(kind int32, source, target, data, extra string, seq uint64, salt string) *types.Transaction {
	t := &types.Transaction{
		Type:      kind,
		Source:    source,
		Target:    target,
		Data:      data,
		ExtraData: extra,
		Time:      fmt.Sprintf("%s;", salt),
		RequestId: seq,
		ChainId:   common.ChainId(1),
		Sign:      common.BytesToSign(make([]byte, 65)),
	}
	t.Hash = t.GenHash()
	return t
}
