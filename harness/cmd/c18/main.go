// c18 runs the real decimal conversions (src/utility/data_convert.go and the
// eth_tx.ConvertTx value path) on TLC-generated cases (spec/DecimalGen.tla)
// and on seeded random amounts/strings, and logs `Call(in) = out` events for
// spec/DecimalTrace.tla.  Integers are logged as sign + big-endian magnitude
// bytes (big.Int.Bytes()); the monitor converts them to decimal digits itself.
// The driver computes no expected value.
//
// Events
//
//	Parse    lit {neg,int,frac,dot} (digit arrays), s (the string offered),
//	         ok, out                       utility.StrToBigInt(s)
//	Format   n, s                          utility.BigIntToStr(n)
//	RoundTrip n, s, ok, out                StrToBigInt(BigIntToStr(n))
//	Rescale  dir ("erc20"|"ledger"), n, dec, out
//	         utility.FormatDecimalForERC20 / FormatDecimalForRocket
//	EthValue n, s (TransferValue in the converted tx), ok, out
//	         eth_tx.NewTransaction(value n) -> eth_tx.ConvertTx -> json ->
//	         types.ContractData.TransferValue -> utility.StrToBigInt (the two
//	         statements of executor.decodeContractData that touch the value)
package main

import (
	"encoding/hex"
	"encoding/json"
	"flag"
	"fmt"
	"math/big"
	"math/rand"
	"path/filepath"
	"runtime"
	"strings"

	"com.tuntun.rangers/node/src/common"
	"com.tuntun.rangers/node/src/eth_tx"
	"com.tuntun.rangers/node/src/middleware/types"
	"com.tuntun.rangers/node/src/storage/account"
	"com.tuntun.rangers/node/src/utility"
	"verif/harness/internal/codecutil"
	"verif/harness/internal/execdrv"
	"verif/harness/internal/vutil"
)

type tcase struct {
	Op   string `json:"op"` // parse | num | rescale
	Neg  bool   `json:"neg"`
	Int  []int  `json:"int"`
	Frac []int  `json:"frac"`
	Dot  bool   `json:"dot"`
	D    []int  `json:"d"`
	Dec  int    `json:"dec"`
	Cls  string `json:"cls"`
	S    string `json:"s"`
}

func digitsStr(d []int) string {
	var sb strings.Builder
	for _, x := range d {
		sb.WriteByte(byte('0' + x))
	}
	return sb.String()
}

func numForm(n *big.Int) map[string]interface{} {
	if n == nil {
		return map[string]interface{}{"nil": true, "neg": false, "b": []int{}}
	}
	return map[string]interface{}{"nil": false, "neg": n.Sign() < 0, "b": codecutil.Ints(n.Bytes())}
}

// bigOf builds the amount a case describes (sign + decimal digits).
func bigOf(neg bool, d []int) *big.Int {
	n := new(big.Int)
	if len(d) > 0 {
		if _, ok := n.SetString(digitsStr(d), 10); !ok {
			vutil.Fatalf("bad digits in case")
		}
	}
	if neg {
		n.Neg(n)
	}
	return n
}

var tr *vutil.Trace
var counts = map[string]int{}

func emit(ev map[string]interface{}) {
	counts[ev["event"].(string)]++
	tr.Emit(ev)
}

func doParse(neg bool, ip, fp []int, dot bool, src string) {
	s := ""
	if neg {
		s = "-"
	}
	s += digitsStr(ip)
	if dot {
		s += "."
	}
	s += digitsStr(fp)
	ev := map[string]interface{}{"event": "Parse", "src": src, "s": s,
		"lit":   map[string]interface{}{"neg": neg, "int": append([]int{}, ip...), "frac": append([]int{}, fp...), "dot": dot},
		"panic": false, "ok": false, "out": numForm(nil)}
	var out *big.Int
	var err error
	p, _ := codecutil.Try(func() { out, err = utility.StrToBigInt(s) })
	ev["panic"] = p
	if !p && err == nil {
		ev["ok"] = true
		ev["out"] = numForm(out)
	}
	emit(ev)
}

// doRaw offers a string as it is; its code points are logged for the monitor's grammar.
func doRaw(cls, s, src string) {
	codes := make([]int, 0, len(s))
	for _, r := range s {
		codes = append(codes, int(r))
	}
	ev := map[string]interface{}{"event": "ParseRaw", "src": src, "cls": cls, "s": s, "codes": codes, "panic": false, "ok": false, "out": numForm(nil)}
	var out *big.Int
	var err error
	p, _ := codecutil.Try(func() { out, err = utility.StrToBigInt(s) })
	ev["panic"] = p
	if !p && err == nil {
		ev["ok"] = true
		ev["out"] = numForm(out)
	}
	emit(ev)
}

func doNum(n *big.Int, src string) {
	in := numForm(n)
	var s string
	p, _ := codecutil.Try(func() { s = utility.BigIntToStr(n) })
	emit(map[string]interface{}{"event": "Format", "src": src, "n": in, "panic": p, "s": s})
	// round trip
	ev := map[string]interface{}{"event": "RoundTrip", "src": src, "n": in, "s": "", "panic": false, "ok": false, "out": numForm(nil)}
	var out *big.Int
	var err error
	p, _ = codecutil.Try(func() {
		s = utility.BigIntToStr(n)
		out, err = utility.StrToBigInt(s)
	})
	ev["panic"] = p
	ev["s"] = s
	if !p && err == nil {
		ev["ok"] = true
		ev["out"] = numForm(out)
	}
	emit(ev)
	// the value of a wrapped Ethereum transaction on its way to the EVM
	if n.Sign() >= 0 && n.BitLen() <= 256 {
		ev := map[string]interface{}{"event": "EthValue", "src": src, "n": in, "s": "", "panic": false, "ok": false, "out": numForm(nil)}
		p, msg := codecutil.Try(func() {
			to := common.HexToAddress("0x1111111111111111111111111111111111111111")
			raw := eth_tx.NewTransaction(7, to, n, 21000, big.NewInt(1000000000), []byte{1, 2, 3})
			tx := eth_tx.ConvertTx(raw, common.HexToAddress("0x2222222222222222222222222222222222222222"), []byte{0xc0})
			var data types.ContractData
			if e := json.Unmarshal([]byte(tx.Data), &data); e != nil {
				err = e
				return
			}
			ev["s"] = data.TransferValue
			out, err = utility.StrToBigInt(data.TransferValue)
		})
		ev["panic"] = p
		if p {
			ev["msg"] = msg
		}
		if !p && err == nil {
			ev["ok"] = true
			ev["out"] = numForm(out)
		}
		emit(ev)
	}
}

func doRescale(n *big.Int, dec int, src string) {
	for _, dir := range []string{"erc20", "ledger"} {
		var out *big.Int
		p, _ := codecutil.Try(func() {
			if dir == "erc20" {
				out = utility.FormatDecimalForERC20(n, int64(dec))
			} else {
				out = utility.FormatDecimalForRocket(n, int64(dec))
			}
		})
		emit(map[string]interface{}{"event": "Rescale", "src": src, "dir": dir, "n": numForm(n), "dec": dec, "panic": p, "out": numForm(out)})
	}
}

// concurrent: K goroutines convert at the same time, each with its own token decimal count, the
// amounts of the list; every goroutine compares with the results the same calls gave sequentially
// beforehand and reports the first difference, which is then emitted as an ordinary RoundTrip /
// Rescale event (src "conc") and judged by the monitor.
func concurrent(amounts []*big.Int, rounds int) (ran int) {
	decs := []int{18, 6, 0, 8, 18, 17, 9, 18}
	type want struct{ rt, erc, led string }
	str := func(n *big.Int, err error) string {
		if err != nil || n == nil {
			return "error"
		}
		return n.String()
	}
	refs := make([][]want, len(decs))
	for g, d := range decs {
		refs[g] = make([]want, len(amounts))
		for i, n := range amounts {
			refs[g][i] = want{str(utility.StrToBigInt(utility.BigIntToStr(n))), str(utility.FormatDecimalForERC20(n, int64(d)), nil),
				str(utility.FormatDecimalForRocket(n, int64(d)), nil)}
		}
	}
	type bad struct {
		op  string
		n   *big.Int
		dec int
		out *big.Int
		s   string
		ok  bool
	}
	for r := 0; r < rounds; r++ {
		ch := make(chan *bad, len(decs))
		cnt := make(chan int, len(decs))
		start := make(chan struct{})
		for g, d := range decs {
			go func(g, d int) {
				var b *bad
				c := 0
				<-start
				defer func() {
					if x := recover(); x != nil {
						b = &bad{op: "panic"}
					}
					cnt <- c
					ch <- b
				}()
				for i, n := range amounts {
					if b != nil {
						break
					}
					c += 3
					s := utility.BigIntToStr(n)
					out, err := utility.StrToBigInt(s)
					if str(out, err) != refs[g][i].rt {
						b = &bad{op: "RoundTrip", n: n, out: out, s: s, ok: err == nil}
						break
					}
					if o := utility.FormatDecimalForERC20(n, int64(d)); str(o, nil) != refs[g][i].erc {
						b = &bad{op: "erc20", n: n, dec: d, out: o}
						break
					}
					if o := utility.FormatDecimalForRocket(n, int64(d)); str(o, nil) != refs[g][i].led {
						b = &bad{op: "ledger", n: n, dec: d, out: o}
					}
				}
			}(g, d)
		}
		close(start)
		for range decs {
			ran += <-cnt
			b := <-ch
			if b == nil || counts["conc-diff"] >= 300 {
				continue
			}
			counts["conc-diff"]++
			switch b.op {
			case "panic":
				emit(map[string]interface{}{"event": "RoundTrip", "src": "conc", "n": numForm(big.NewInt(0)), "s": "", "panic": true, "ok": false, "out": numForm(nil)})
			case "RoundTrip":
				emit(map[string]interface{}{"event": "RoundTrip", "src": "conc", "n": numForm(b.n), "s": b.s, "panic": false, "ok": b.ok, "out": numForm(b.out)})
			default:
				emit(map[string]interface{}{"event": "Rescale", "src": "conc", "dir": b.op, "n": numForm(b.n), "dec": b.dec, "panic": false, "out": numForm(b.out)})
			}
		}
	}
	return
}

// ------------------------------------------------------------------ the EVM end of the value path
// A wrapped Ethereum transaction carrying value v is executed through the node's real executor path
// (core.VerifExecuteBlock: BeforeExecute + Execute) against a contract that stores CALLVALUE in slot 0;
// observed: the CALLVALUE the outer frame received and what the recipient was credited.

var evmStopped bool

var recorderRuntime = []byte{0x34, 0x60, 0x00, 0x55, 0x00} // CALLVALUE PUSH1 0 SSTORE STOP

func initCode(rt []byte) []byte {
	n := len(rt)
	return append([]byte{0x61, byte(n >> 8), byte(n), 0x60, 0x0e, 0x60, 0x00, 0x39, 0x61, byte(n >> 8), byte(n), 0x60, 0x00, 0xf3}, rt...)
}

type evmWorld struct {
	st     *account.AccountDB
	height uint64
	seq    uint64
	src    string
}

func (w *evmWorld) deploy() (common.Address, bool) {
	w.height++
	w.seq++
	cd, _ := json.Marshal(types.ContractData{GasLimit: "1000000", TransferValue: "0", AbiData: "0x" + hex.EncodeToString(initCode(recorderRuntime))})
	tx := execdrv.NewTx(types.TransactionTypeContract, w.src, "", string(cd), "", w.seq, fmt.Sprintf("c18-deploy-%d", w.seq))
	res := execdrv.Execute(w.st, w.height, []*types.Transaction{tx})
	if !res.Ok(tx.Hash) || len(res.Receipts) != 1 {
		return common.Address{}, false
	}
	return res.Receipts[0].ContractAddress, true
}

// send executes a wrapped Ethereum transaction with value v to the recorder and reports what arrived.
func (w *evmWorld) send(to common.Address, v *big.Int, recipient string, p015 bool, src string) {
	old := common.LocalChainConfig.Proposal015Block
	if !p015 {
		common.LocalChainConfig.Proposal015Block = 1 << 50
	}
	defer func() { common.LocalChainConfig.Proposal015Block = old }()
	w.height++
	w.seq++
	sender := common.HexToAddress(w.src)
	raw := eth_tx.NewTransaction(w.st.GetNonce(sender), to, v, 200000, big.NewInt(1000000000), nil)
	tx := eth_tx.ConvertTx(raw, sender, []byte{0xc0})
	tx.RequestId = w.seq
	before := new(big.Int).Set(w.st.GetBalance(to))
	ev := map[string]interface{}{"event": "EvmValue", "src": src, "n": numForm(v), "recipient": recipient, "p015": p015,
		"panic": false, "ok": false, "out": numForm(nil), "credited": numForm(nil)}
	var res *execdrv.Result
	p, msg := codecutil.Try(func() { res = execdrv.Execute(w.st, w.height, []*types.Transaction{tx}) })
	if p {
		ev["panic"] = true
		ev["msg"] = msg
	} else if res.Ok(tx.Hash) {
		ev["ok"] = true
		ev["out"] = numForm(new(big.Int).SetBytes(w.st.GetData(to, make([]byte, 32))))
		ev["credited"] = numForm(new(big.Int).Sub(w.st.GetBalance(to), before))
	}
	emit(ev)
}

// aliasEvents: the *big.Int a caller hands to the converters / the account state must still hold
// its value afterwards, also after the result (or the stored balance) was worked on.
func aliasEvents(st *account.AccountDB, v *big.Int, src string) {
	one := big.NewInt(1)
	check := func(fn string, f func(x *big.Int)) {
		x := new(big.Int).Set(v)
		p, _ := codecutil.Try(func() { f(x) })
		emit(map[string]interface{}{"event": "Alias", "src": src, "fn": fn, "n": numForm(v), "panic": p, "after": numForm(x)})
	}
	check("FormatDecimalForERC20/18", func(x *big.Int) { y := utility.FormatDecimalForERC20(x, 18); y.Add(y, one) })
	check("FormatDecimalForERC20/6", func(x *big.Int) { y := utility.FormatDecimalForERC20(x, 6); y.Add(y, one) })
	check("FormatDecimalForRocket/18", func(x *big.Int) { y := utility.FormatDecimalForRocket(x, 18); y.Add(y, one) })
	check("BigIntToStr", func(x *big.Int) { utility.BigIntToStr(x) })
	if st != nil {
		a := common.HexToAddress("0x00000000000000000000000000000000c18a11a5")
		check("AccountDB.AddBalance", func(x *big.Int) { st.AddBalance(a, x); st.AddBalance(a, one) })
		check("AccountDB.SetBalance", func(x *big.Int) { st.SetBalance(a, x); st.AddBalance(a, one); st.SubBalance(a, one) })
		check("AccountDB.SubBalance", func(x *big.Int) { st.AddBalance(a, x); st.SubBalance(a, x) })
	}
}

func randDigits(rng *rand.Rand, n int) []int {
	d := make([]int, n)
	switch rng.Intn(4) {
	case 0:
		for i := range d {
			d[i] = rng.Intn(10)
		}
	case 1:
		for i := range d {
			d[i] = []int{0, 9}[rng.Intn(2)]
		}
	case 2:
		for i := range d {
			d[i] = 9
		}
		if n > 0 {
			d[rng.Intn(n)] = rng.Intn(10)
		}
	default:
		if n > 0 {
			d[0] = 1 + rng.Intn(9)
		}
		if n > 1 && rng.Intn(2) == 0 {
			d[n-1] = 1 + rng.Intn(9)
		}
	}
	return d
}

func randAmount(rng *rand.Rand) *big.Int {
	var n *big.Int
	switch rng.Intn(4) {
	case 0:
		n = new(big.Int).Rand(rng, new(big.Int).Lsh(big.NewInt(1), 256))
	case 1:
		n = new(big.Int).Rand(rng, new(big.Int).Lsh(big.NewInt(1), uint(1+rng.Intn(256))))
	case 2:
		n = new(big.Int).Lsh(big.NewInt(1), uint(rng.Intn(257)))
		n.Sub(n, big.NewInt(int64(rng.Intn(2))))
	default:
		n = bigOf(false, randDigits(rng, 1+rng.Intn(78)))
	}
	if rng.Intn(5) == 0 {
		n.Neg(n)
	}
	return n
}

func main() {
	out := flag.String("out", "trace.ndjson", "trace file")
	casesPath := flag.String("cases", "", "JSON file: list of TLC-generated cases")
	nRandom := flag.Int("random", 0, "number of seeded random amounts and literals")
	salt := flag.Int64("salt", 0, "extra seed salt (shard number)")
	evmN := flag.Int("evm", 0, "EVM end of the value path: number of seeded random amounts besides the TLC ones (0: off)")
	scratch := flag.String("scratch", "", "scratch directory for the chain (needed with --evm)")
	concRounds := flag.Int("conc", 0, "concurrency family: rounds (8 goroutines with different token decimals over the amounts)")
	flag.Parse()
	outAbs, _ := filepath.Abs(*out)
	var cases []tcase
	codecutil.ReadCases(*casesPath, &cases)
	tr = vutil.NewTrace(outAbs)
	for _, c := range cases {
		switch c.Op {
		case "parse":
			doParse(c.Neg, c.Int, c.Frac, c.Dot, "tlc")
		case "raw":
			doRaw(c.Cls, c.S, "tlc")
		case "num":
			doNum(bigOf(c.Neg, c.D), "tlc")
		case "rescale":
			doRescale(bigOf(c.Neg, c.D), c.Dec, "tlc")
		default:
			vutil.Fatalf("unknown case op %q", c.Op)
		}
	}
	if *salt == 0 {
		// digits outside ASCII (cannot be written in a TLA+ module)
		for _, s := range []string{"\u0661\u0662", "\uff11\uff12", "1\u0662", "\u0967", "1\u00a00"} {
			doRaw("unicode", s, "driver")
		}
	}
	rng := vutil.Rng(18 + 1000**salt)
	for i := 0; i < *nRandom; i++ {
		n := randAmount(rng)
		doNum(n, "random")
		doRescale(n, rng.Intn(19), "random")
		il := rng.Intn(79)
		fl := rng.Intn(19)
		if il == 0 && fl == 0 {
			il = 1
		}
		ip := randDigits(rng, il)
		if il > 1 && ip[0] == 0 {
			ip[0] = 1 + rng.Intn(9)
		}
		doParse(rng.Intn(4) == 0, ip, randDigits(rng, fl), fl > 0, "random")
		// a zero-padded whole or fractional amount
		z := strings.Repeat("0", 1+rng.Intn(4))
		raw := z + digitsStr(randDigits(rng, 1+rng.Intn(20)))
		if rng.Intn(2) == 0 {
			raw += "." + digitsStr(randDigits(rng, 1+rng.Intn(18)))
		}
		doRaw("leadzero", raw, "random")
	}
	if *evmN > 0 {
		if *scratch == "" {
			vutil.Fatalf("--scratch required with --evm")
		}
		execdrv.Boot(*scratch)
		w := &evmWorld{st: execdrv.FreshState(), src: execdrv.Funded[0]}
		limit, _ := new(big.Int).SetString("20000000000000000000000000", 10) // 2e25: the funded sender (1e27) can pay every case of a run
		var amounts []*big.Int
		for _, c := range cases {
			if c.Op == "num" && !c.Neg {
				if n := bigOf(false, c.D); n.Cmp(limit) <= 0 {
					amounts = append(amounts, n)
				}
			}
		}
		for i := 0; i < *evmN; i++ {
			n := randAmount(rng)
			n.Abs(n)
			amounts = append(amounts, n.Mod(n, limit))
		}
		for i, v := range amounts {
			for _, p015 := range []bool{true, false} {
				c, ok := w.deploy()
				if !ok {
					// the world is no longer what the driver built (e.g. the sender's funds were spent by
					// a wrong amount earlier): what was observed so far is in the trace, stop here
					evmStopped = true
					break
				}
				w.send(c, v, "fresh", p015, "evm")
				w.send(c, v, "funded", p015, "evm") // the same recipient again: it now holds v
				if i%4 == 0 {
					w.send(c, new(big.Int).Add(v, big.NewInt(1)), "funded", p015, "evm")
				}
			}
			if evmStopped {
				break
			}
			aliasEvents(w.st, v, "evm")
		}
	}
	concRan := 0
	if *concRounds > 0 {
		// the amounts of this shard's TLC cases plus seeded random ones
		var amounts []*big.Int
		for _, c := range cases {
			if c.Op == "num" || c.Op == "rescale" {
				amounts = append(amounts, bigOf(c.Neg, c.D))
			}
		}
		for len(amounts) < 150 {
			amounts = append(amounts, randAmount(rng))
		}
		if len(amounts) > 400 {
			amounts = amounts[:400]
		}
		for _, procs := range []int{runtime.NumCPU(), 1} {
			old := runtime.GOMAXPROCS(procs)
			concRan += concurrent(amounts, *concRounds)
			runtime.GOMAXPROCS(old)
		}
	}
	tr.Close()
	fmt.Printf("c18: conc_conversions=%d events=%d parse=%d format=%d roundtrip=%d rescale=%d ethvalue=%d\n", concRan, tr.N,
		counts["Parse"]+counts["ParseRaw"], counts["Format"], counts["RoundTrip"], counts["Rescale"], counts["EthValue"])
}
