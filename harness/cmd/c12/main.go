// c12 compiles frame trees (nested CALL / CALLCODE / DELEGATECALL / STATICCALL /
// CREATE / CREATE2 frames, each with state-modifying instructions and a chosen
// way to end) to real byte code, executes them as transactions back to back
// on ONE real AccountDB (Prepare(txHash) -> vm.NewEVM(...).Call -> GetLogs,
// the sequence of core.VMExecutor) and records for spec/EvmFramesTrace.tla
// the projection of the account state around every call instruction, at the
// boundaries of every static frame, after every Prepare and at the end of
// every transaction.
//
// Trees come from TLC (call histories of spec/EvmFrames.tla) and from a
// seeded generator.
package main

import (
	"encoding/json"
	"flag"
	"fmt"
	"math/big"
	"math/rand"
	"os"
	"sort"
	"strings"

	"com.tuntun.rangers/node/src/common"
	crypto "com.tuntun.rangers/node/src/eth_crypto"
	"com.tuntun.rangers/node/src/middleware/types"
	"com.tuntun.rangers/node/src/service"
	"com.tuntun.rangers/node/src/storage/account"
	"com.tuntun.rangers/node/src/vm"
	eu "verif/harness/internal/evmutil"
	"verif/harness/internal/vutil"
)

// gas of a transaction and of a sub call; multiplied by the magnification in the Proposal026-on configuration
var (
	txGas    uint64 = 1000000
	childGas uint64 = 150000
)

const (
	height   = 100
	maxNodes = 12
	plainA   = 13 // ids of plain (code-less, initially absent) accounts
	plainB   = 14
	idMiner  = 40 // the contract that is a miner's account (custom-opcode scenarios)
)

// ---------------------------------------------------------------- tree model

type item struct {
	Mut  string `json:"mut,omitempty"` // sstore | tstore | log | transfer | destroy | tload
	A    int    `json:"a,omitempty"`
	V    int    `json:"v,omitempty"`
	Node *node  `json:"node,omitempty"`
}

type node struct {
	Kind  string `json:"kind"` // call | callcode | delegate | static | create | create2
	End   string `json:"end"`  // ok | revert | fault | codestore | oversize | write
	Items []item `json:"items"`
	id    int    // deployed contract id (call kinds)
	fault int
}

// token of a TLC history (spec/EvmFrames.tla, variable hist)
type token struct {
	Op   string `json:"op"`
	Kind string `json:"kind"`
	A    int    `json:"a"`
	V    int    `json:"v"`
	Mode string `json:"mode"`
}

// parseHist turns one TLC history into one tree per transaction.
func parseHist(toks []token) []*node {
	var txs []*node
	var stack []*node
	for _, t := range toks {
		switch t.Op {
		case "tx":
			n := &node{Kind: "call"}
			txs = append(txs, n)
			stack = []*node{n}
		case "enter":
			n := &node{Kind: t.Kind}
			top := stack[len(stack)-1]
			top.Items = append(top.Items, item{Node: n})
			stack = append(stack, n)
		case "ok", "fail":
			top := stack[len(stack)-1]
			top.End = "ok"
			if t.Op == "fail" {
				top.End = t.Mode
			}
			stack = stack[:len(stack)-1]
		default:
			top := stack[len(stack)-1]
			top.Items = append(top.Items, item{Mut: t.Op, A: t.A, V: t.V})
		}
	}
	return txs
}

// ----------------------------------------------------------------- compiler

type compiler struct {
	st      *account.AccountDB
	noSpin  bool // never end a frame in an endless loop (receipt layer: a failing CREATE frame gets 63/64 of a large gas limit)
	next    int  // next contract id
	logSeq  *int
	faultNo *int
}

func (c *compiler) alloc() int {
	c.next++
	if c.next > maxNodes {
		vutil.Fatalf("tree with more than %d call frames", maxNodes)
	}
	return c.next
}

// body emits the instructions of a frame: its items in order, then its end.
func (c *compiler) body(n *node, isCreate bool) []byte {
	a := eu.NewAsm()
	var blobs [][]byte // init codes embedded after the instructions
	for _, it := range n.Items {
		switch {
		case it.Node != nil:
			ch := it.Node
			switch ch.Kind {
			case "create", "create2":
				init := c.body(ch, true)
				lbl := fmt.Sprintf("blob%d", len(blobs))
				blobs = append(blobs, init)
				// CODECOPY(0, blob, len); CREATE(value, 0, len)
				a.PushInt(uint64(len(init))).PushLabel(lbl).Op(eu.PUSH0, eu.CODECOPY)
				if ch.Kind == "create2" {
					a.PushInt(uint64(7 + len(blobs)))
				}
				a.PushInt(uint64(len(init))).Op(eu.PUSH0).PushInt(uint64(it.V % 2))
				if ch.Kind == "create2" {
					a.Op(eu.CREATE2)
				} else {
					a.Op(eu.CREATE)
				}
				a.Op(eu.POP)
			default:
				ch.id = c.alloc()
				code := c.body(ch, false)
				c.st.CreateAccount(eu.Addr(ch.id))
				c.st.SetCode(eu.Addr(ch.id), code)
				a.Op(eu.PUSH0, eu.PUSH0, eu.PUSH0, eu.PUSH0)
				switch ch.Kind {
				case "call":
					a.PushInt(uint64(it.V % 2)).PushInt(uint64(0x1000 + ch.id)).PushInt(childGas).Op(eu.CALL)
				case "callcode":
					a.PushInt(uint64(it.V % 2)).PushInt(uint64(0x1000 + ch.id)).PushInt(childGas).Op(eu.CALLCODE)
				case "delegate":
					a.PushInt(uint64(0x1000 + ch.id)).PushInt(childGas).Op(eu.DELEGATECALL)
				case "static":
					a.PushInt(uint64(0x1000 + ch.id)).PushInt(childGas).Op(eu.STATICCALL)
				default:
					vutil.Fatalf("unknown frame kind %q", ch.Kind)
				}
				a.Op(eu.POP)
			}
		case it.Mut == "sstore":
			a.PushInt(uint64(1 + it.V%3)).PushInt(uint64(it.A % 3)).Op(eu.SSTORE)
		case it.Mut == "tstore":
			a.PushInt(uint64(1 + it.V%3)).PushInt(uint64(it.A % 3)).Op(eu.TSTORE)
		case it.Mut == "tload": // copy transient slot into storage slot 2 (a probe that survives the transaction)
			a.PushInt(uint64(it.A % 3)).Op(eu.TLOAD).PushInt(2).Op(eu.SSTORE)
		case it.Mut == "log":
			*c.logSeq++
			a.PushInt(uint64(*c.logSeq)).Op(eu.PUSH0, eu.PUSH0, eu.LOG1)
		case it.Mut == "transfer":
			p := plainA
			if it.V%2 == 1 {
				p = plainB
			}
			a.Op(eu.PUSH0, eu.PUSH0, eu.PUSH0, eu.PUSH0).PushInt(1).PushInt(uint64(0x1000+p)).PushInt(30000).Op(eu.CALL, eu.POP)
		case it.Mut == "destroy":
			a.PushInt(uint64(0x1000 + plainA)).Op(eu.SELFDESTRUCT)
		case it.Mut == "precall":
			// a call instruction whose callee is a precompile: kind = A%4 (call, callcode, delegate, static),
			// outcome class = (A/4)%4 (succeeds / blake2F with a wrong input length / ecrecover with only the
			// stipend or nothing to pay its price / bn256Add with points that are not on the curve), value V
			kind, class := it.A%4, (it.A/4)%4
			addr, inLen, gas := 4, 0, 50000
			switch class {
			case 1:
				addr, inLen = 9, 5
			case 2:
				addr, gas = 1, 0
			case 3:
				addr, inLen = 6, 128
				a.Push(bytes32(0xff)).PushInt(0).Op(eu.MSTORE).Push(bytes32(0xff)).PushInt(32).Op(eu.MSTORE)
				a.Push(bytes32(0xff)).PushInt(64).Op(eu.MSTORE).Push(bytes32(0xff)).PushInt(96).Op(eu.MSTORE)
			}
			a.PushInt(0).PushInt(0).PushInt(uint64(inLen)).PushInt(0)
			switch kind {
			case 0:
				a.PushInt(uint64(it.V % 2)).PushInt(uint64(addr)).PushInt(uint64(gas)).Op(eu.CALL)
			case 1:
				a.PushInt(uint64(it.V % 2)).PushInt(uint64(addr)).PushInt(uint64(gas)).Op(eu.CALLCODE)
			case 2:
				a.PushInt(uint64(addr)).PushInt(uint64(gas)).Op(eu.DELEGATECALL)
			default:
				a.PushInt(uint64(addr)).PushInt(uint64(gas)).Op(eu.STATICCALL)
			}
			a.Op(eu.POP)
		default:
			vutil.Fatalf("unknown item %+v", it)
		}
	}
	switch n.End {
	case "ok":
		if isCreate {
			a.PushInt(1).Op(eu.PUSH0, eu.RETURN) // runtime code: one STOP byte
		} else {
			a.Op(eu.STOP)
		}
	case "revert":
		a.Op(eu.PUSH0, eu.PUSH0, eu.REVERT)
	case "write":
		// the model's frame ended at a state-modifying instruction refused in static context; should the
		// real interpreter let it through, the frame ends normally and the modification is kept
		if isCreate {
			a.PushInt(1).Op(eu.PUSH0, eu.RETURN)
		} else {
			a.Op(eu.STOP)
		}
	case "oversize":
		// a creation that returns more code than MaxCodeSize (245760 bytes) fails, whatever gas is left
		if isCreate {
			*c.faultNo++
			a.PushInt(uint64([]int{245761, 300000}[*c.faultNo%2])).Op(eu.PUSH0, eu.RETURN)
		} else {
			a.Op(eu.INVALID)
		}
	case "codestore":
		if isCreate {
			a.PushInt(20000).Op(eu.PUSH0, eu.RETURN) // 20000 bytes of code: the deposit (200 gas per byte) cannot be paid
		} else {
			a.Op(eu.INVALID)
		}
	default: // fault: rotate through the faults of the instruction set
		*c.faultNo++
		if c.noSpin && *c.faultNo%5 == 3 {
			*c.faultNo++
		}
		switch *c.faultNo % 5 {
		case 0:
			a.Op(eu.INVALID)
		case 1:
			a.Op(eu.POP, eu.POP, eu.POP, eu.POP, eu.POP) // stack underflow
		case 2:
			a.PushInt(1).Op(eu.JUMP) // bad jump
		case 3:
			a.Label("spin").PushLabel("spin").Op(eu.JUMP) // out of gas
		default:
			a.Op(0x0c) // undefined opcode
		}
	}
	for i, b := range blobs {
		a.Mark(fmt.Sprintf("blob%d", i))
		a.Op(b...)
	}
	return a.Bytes()
}

func bytes32(b byte) []byte {
	out := make([]byte, 32)
	for i := range out {
		out[i] = b
	}
	return out
}

// ----------------------------------------------------------------- projection

type world struct {
	st      *account.AccountDB
	minerID []byte
	addrs   []common.Address // universe, index = id
}

func newWorld(st *account.AccountDB) *world {
	w := &world{st: st}
	w.addrs = append(w.addrs, eu.Origin)
	for i := 1; i <= plainB; i++ {
		w.addrs = append(w.addrs, eu.Addr(i))
	}
	for i := 1; i <= 18; i++ { // the precompile addresses: a value-bearing call creates / funds these accounts
		w.addrs = append(w.addrs, precompileAddr(i))
	}
	w.addrs = append(w.addrs, eu.Addr(idMiner), authorityAddr())
	// addresses the contracts can create: CREATE by contract i at nonces 0..2, CREATE by those at nonce 1
	for i := 1; i <= maxNodes; i++ {
		for n := uint64(0); n <= 2; n++ {
			c := crypto.CreateAddress(eu.Addr(i), n)
			w.addrs = append(w.addrs, c, crypto.CreateAddress(c, 1))
		}
	}
	return w
}

func precompileAddr(i int) common.Address {
	var a common.Address
	a[19] = byte(i)
	return a
}

// a fixed key: the authority of the AUTH / AUTHCALL scenario
var authorityKey = crypto.ToECDSAUnsafe(crypto.Keccak256([]byte("verif-c12-authority")))

func authorityAddr() common.Address { return crypto.PubkeyToAddress(authorityKey.PublicKey) }

var whole = new(big.Int).Exp(big.NewInt(10), big.NewInt(18), nil)

func (w *world) id(a common.Address) int {
	for i, x := range w.addrs {
		if x == a {
			return i
		}
	}
	return 999
}

func small(h common.Hash) int {
	b := new(big.Int).SetBytes(h.Bytes())
	if b.BitLen() > 30 {
		return 1 << 30
	}
	return int(b.Int64())
}

func smallBig(b *big.Int) int {
	if b.BitLen() > 30 {
		return 1 << 30
	}
	return int(b.Int64())
}

func slot(i int) common.Hash { return common.BigToHash(big.NewInt(int64(i))) }

// state is the projection of the journalled account state: one record per
// account of the universe that exists or holds anything.
func (w *world) state() []map[string]interface{} {
	out := make([]map[string]interface{}, 0)
	for i, a := range w.addrs {
		// an account exists in the sense of the property when it is not empty (EIP-161: the zero-value touch of a call -
		// also the one EVM.Call gives a precompile it runs - leaves an empty account object, which is no account)
		ex := w.st.Exist(a) && !w.st.Empty(a)
		rec := map[string]interface{}{"id": i, "exists": ex, "bal": smallBig(w.st.GetBalance(a)), "nonce": int(w.st.GetNonce(a)),
			"code": len(w.st.GetCode(a)), "dead": w.st.HasSuicided(a), "balw": smallBig(new(big.Int).Div(w.st.GetBalance(a), whole)),
			"stake": w.stakeOf(a),
			"s0":    small(w.st.GetState(a, slot(0))), "s1": small(w.st.GetState(a, slot(1))), "s2": small(w.st.GetState(a, slot(2))),
			"t0": small(w.st.GetTransientState(a, slot(0))), "t1": small(w.st.GetTransientState(a, slot(1))), "t2": small(w.st.GetTransientState(a, slot(2)))}
		if ex || rec["bal"] != 0 || rec["nonce"] != 0 || rec["code"] != 0 || rec["s0"] != 0 || rec["s1"] != 0 || rec["s2"] != 0 ||
			rec["t0"] != 0 || rec["t1"] != 0 || rec["t2"] != 0 {
			out = append(out, rec)
		}
	}
	return out
}

// stakeOf: the stake of the miner whose account is a (only looked up for the miner contract of the custom-opcode scenarios)
func (w *world) stakeOf(a common.Address) int {
	if a != eu.Addr(idMiner) || w.minerID == nil {
		return 0
	}
	m := service.MinerManagerImpl.GetMiner(w.minerID, w.st)
	if m == nil {
		return -1
	}
	return int(m.Stake)
}

func (w *world) access() []int {
	out := []int{}
	for i, a := range w.addrs {
		if w.st.AddressInAccessList(a) {
			out = append(out, i)
		}
	}
	return out
}

func (w *world) logIDs(logs []*types.Log) []map[string]interface{} {
	out := make([]map[string]interface{}, 0)
	for _, l := range logs {
		t := -1
		if len(l.Topics) > 0 {
			t = small(l.Topics[0])
		}
		out = append(out, map[string]interface{}{"a": w.id(l.Address), "t": t})
	}
	return out
}

// ------------------------------------------------------------------ observer

var callOps = map[byte]bool{eu.CALL: true, eu.CALLCODE: true, eu.DELEGATECALL: true, eu.STATICCALL: true, eu.CREATE: true, eu.CREATE2: true}
var writeOps = map[byte]bool{eu.SSTORE: true, 0xa0: true, 0xa1: true, 0xa2: true, 0xa3: true, 0xa4: true, eu.CREATE: true,
	eu.CREATE2: true, eu.SELFDESTRUCT: true, eu.TSTORE: true}

type observer struct {
	*eu.Recorder
	preCustom map[int][]map[string]interface{} // depth -> projection before a custom opcode in static context
	w         *world
	tr        *vutil.Trace
	lastExit  map[int]string // depth -> error class of the last frame that exited there
	exited    map[int]bool
	stats     map[string]int
}

func (o *observer) StepCharged(s *vm.VerifStep) {
	o.Recorder.StepCharged(s)
	op := byte(s.Op)
	if customOps[op] && o.InStatic() {
		if o.preCustom == nil {
			o.preCustom = map[int][]map[string]interface{}{}
		}
		o.preCustom[s.Depth] = o.w.state()
	}
	if callOps[op] {
		delete(o.exited, s.Depth+1)
		o.tr.Emit(map[string]interface{}{"event": "Before", "depth": s.Depth, "op": int(op), "self": o.w.id(s.Address),
			"ro": o.InStatic(), "state": o.w.state(), "logs": o.w.logIDs(o.w.st.GetLogs(curTx))})
	}
	if o.InStatic() && (writeOps[op] || (op == eu.CALL && len(s.Stack) >= 3 && !s.Stack[len(s.Stack)-3].IsZero())) {
		// the interpreter let a state-modifying instruction through in static context (TSTORE is refused inside execute)
		if op != eu.TSTORE {
			o.tr.Emit(map[string]interface{}{"event": "StaticWrite", "depth": s.Depth, "op": int(op), "stage": "charged"})
		}
	}
}

func (o *observer) StepDone(s *vm.VerifStep, res []byte, err error) {
	o.Recorder.StepDone(s, res, err)
	op := byte(s.Op)
	if err == nil && o.InStatic() && writeOps[op] {
		o.tr.Emit(map[string]interface{}{"event": "StaticWrite", "depth": s.Depth, "op": int(op), "stage": "done"})
	}
	if err == nil && op >= 0xa0 && op <= 0xa4 {
		o.stats["logs"]++
	}
	if customOps[op] && o.InStatic() {
		// the node's own opcodes have no write flag: report them when they did change the state in static context
		if pre, ok := o.preCustom[s.Depth]; ok && !sameState(pre, o.w.state()) {
			o.tr.Emit(map[string]interface{}{"event": "StaticWrite", "depth": s.Depth, "op": int(op), "stage": "custom"})
			o.stats["custom_static_changes"]++
		}
		delete(o.preCustom, s.Depth)
	}
	if callOps[op] {
		ok := len(s.Stack) > 0 && !s.Stack[len(s.Stack)-1].IsZero()
		cerr := "noframe"
		if o.exited[s.Depth+1] {
			cerr = o.lastExit[s.Depth+1]
			if cerr == "" {
				cerr = "none"
				if (op == eu.CREATE || op == eu.CREATE2) && !ok && o.LastRetLen[s.Depth+1] > 245760 {
					cerr = "oversize" // the init code ended normally but returned more than MaxCodeSize
				}
			}
		}
		o.tr.Emit(map[string]interface{}{"event": "After", "depth": s.Depth, "op": int(op), "self": o.w.id(s.Address), "ok": ok,
			"cerr": cerr, "state": o.w.state(), "logs": o.w.logIDs(o.w.st.GetLogs(curTx))})
		o.stats["calls"]++
		if !ok {
			o.stats["failed_calls"]++
			o.stats["failed:"+cerr]++
		}
	}
}

var curTx common.Hash

// execTx runs one transaction the way core.VMExecutor does (Prepare, EVM.Call, GetLogs) with the observer on.
func execTx(st *account.AccountDB, w *world, tr *vutil.Trace, stats map[string]int, sn, i int, entry common.Address, input []byte,
	hashes *[]common.Hash) {
	curTx = common.BytesToHash([]byte(fmt.Sprintf("verif-tx-%d-%d", sn, i)))
	*hashes = append(*hashes, curTx)
	// what core.VMExecutor does before every transaction (Proposal013 active)
	st.Prepare(curTx, common.Hash{}, i)
	tr.Emit(map[string]interface{}{"event": "TxBegin", "tx": i + 1, "state": w.state(), "access": w.access(),
		"logs": w.logIDs(st.GetLogs(curTx))})
	rec := eu.NewRecorder(tr, eu.Options{Frames: true, MaxSteps: 1, MaxFaults: 1, HardSteps: 3000000,
		StepFilter: func(int, byte) bool { return false }})
	obs := &observer{Recorder: rec, w: w, tr: tr, lastExit: map[int]string{}, exited: map[int]bool{}, stats: stats}
	rec.Opt.EnterExtra = func(f *vm.VerifFrame) map[string]interface{} {
		if rec.InStatic() {
			return map[string]interface{}{"state": w.state(), "logs": w.logIDs(st.GetLogs(curTx))}
		}
		return nil
	}
	rec.Opt.ExitExtra = func(f *vm.VerifFrame, err error, logs []*types.Log) map[string]interface{} {
		obs.lastExit[f.Depth] = eu.ErrClass(err)
		obs.exited[f.Depth] = true
		if rec.InStatic() {
			return map[string]interface{}{"state": w.state(), "logs": w.logIDs(st.GetLogs(curTx))}
		}
		return nil
	}
	vm.VerifSetObserver(obs)
	rec.BeginRun(i + 1)
	evm := eu.NewEVM(st, height, txGas)
	rec.Cancel = evm.Cancel
	tr.Emit(map[string]interface{}{"event": "Before", "depth": 0, "op": -1, "self": 0, "ro": false, "state": w.state(),
		"logs": w.logIDs(st.GetLogs(curTx))})
	var (
		err    error
		retLog []*types.Log
		panik  = ""
	)
	func() {
		defer func() {
			if p := recover(); p != nil {
				panik = fmt.Sprintf("%v", p)
			}
		}()
		_, _, retLog, err = evm.Call(vm.AccountRef(eu.Origin), entry, input, txGas, big.NewInt(0))
	}()
	vm.VerifSetObserver(nil)
	if panik != "" {
		vutil.Fatalf("host panic in scenario %d: %s", sn, panik)
	}
	cerr := eu.ErrClass(err)
	if cerr == "" {
		cerr = "none"
	}
	tr.Emit(map[string]interface{}{"event": "After", "depth": 0, "op": -1, "self": 0, "ok": err == nil, "cerr": cerr,
		"state": w.state(), "logs": w.logIDs(st.GetLogs(curTx))})
	prev := make([]int, 0)
	for _, h := range (*hashes)[:i] {
		prev = append(prev, len(st.GetLogs(h)))
	}
	tr.Emit(map[string]interface{}{"event": "TxEnd", "tx": i + 1, "ok": err == nil, "receipt": w.logIDs(st.GetLogs(curTx)),
		"returned": w.logIDs(retLog), "prev": prev})
	stats["txs"]++
	if rec.Cancelled {
		vutil.Fatalf("a transaction ran for more than 3 000 000 steps with %d gas", txGas)
	}
	if tr.N > 3000000 {
		vutil.Fatalf("trace budget exceeded")
	}
	if err != nil {
		stats["failed_txs"]++
	}
}

func main() {
	out := flag.String("out", "trace.ndjson", "ndjson trace")
	scratch := flag.String("scratch", "", "scratch directory for the node's stores")
	script := flag.String("script", "", "TLC call histories (json list of token lists)")
	nrand := flag.Int("random", 0, "seeded random scenarios")
	salt := flag.Int64("salt", 0, "seed salt")
	receipts := flag.String("receipts", "", "receipt layer: TLC call histories executed as transactions through the block executor")
	p026 := flag.Bool("p026", false, "Proposal026-on configuration: jump table with doProposal026 applied (all gas x30)")
	custom := flag.Bool("custom", false, "run the custom-opcode-in-static-context scenarios")
	flag.Parse()
	if *receipts != "" {
		runReceipts(*receipts, *out, *scratch)
		return
	}
	eu.Boot(*scratch)
	if *p026 {
		common.LocalChainConfig.Proposal026Block = 0
		txGas, childGas = 60000000, 4500000
	}
	tr := vutil.NewTrace(*out)
	stats := map[string]int{}
	r := vutil.Rng(*salt)

	var scenarios [][]*node
	if *script != "" {
		raw, err := os.ReadFile(*script)
		if err != nil {
			vutil.Fatalf("read script: %v", err)
		}
		var hs [][]token
		if err := json.Unmarshal(raw, &hs); err != nil {
			vutil.Fatalf("parse script: %v", err)
		}
		for _, h := range hs {
			scenarios = append(scenarios, parseHist(h))
			stats["tlc_scenarios"]++
		}
	}
	for i := 0; i < *nrand; i++ {
		scenarios = append(scenarios, randomScenario(r))
		stats["random_scenarios"]++
	}

	for sn, txs := range scenarios {
		st := eu.NewState()
		w := newWorld(st)
		st.AddBalance(eu.Origin, big.NewInt(1000000))
		logSeq, faultNo := 100*(sn%1000), sn
		tr.Emit(map[string]interface{}{"event": "Reset", "scenario": sn, "txs": len(txs)})
		c := &compiler{st: st, logSeq: &logSeq, faultNo: &faultNo}
		roots := make([]int, len(txs))
		for i, root := range txs {
			root.id = c.alloc()
			code := c.body(root, false)
			st.CreateAccount(eu.Addr(root.id))
			st.SetCode(eu.Addr(root.id), code)
			st.AddBalance(eu.Addr(root.id), big.NewInt(10))
			roots[i] = root.id
		}
		for id := 2; id <= c.next; id++ {
			st.AddBalance(eu.Addr(id), big.NewInt(10))
		}
		if os.Getenv("C12_DEBUG") != "" {
			for id := 1; id <= c.next; id++ {
				fmt.Printf("DEBUG scenario %d contract %d code %x\n", sn, id, st.GetCode(eu.Addr(id)))
			}
		}
		var hashes []common.Hash
		for i, rootID := range roots {
			execTx(st, w, tr, stats, sn, i, eu.Addr(rootID), nil, &hashes)
		}
	}
	if *custom {
		customScenarios(tr, stats)
	}
	tr.Close()
	keys := make([]string, 0)
	for k := range stats {
		keys = append(keys, k)
	}
	sort.Strings(keys)
	parts := make([]string, 0)
	for _, k := range keys {
		parts = append(parts, fmt.Sprintf("%s=%d", strings.ReplaceAll(k, " ", "_"), stats[k]))
	}
	fmt.Printf("c12: events=%d %s\n", tr.N, strings.Join(parts, " "))
}

// ----------------------------------------------------------- random scenarios

func randomNode(r *rand.Rand, depth int, budget *int, static bool) *node {
	n := &node{}
	n.End = []string{"ok", "ok", "ok", "revert", "fault"}[r.Intn(5)]
	for k := r.Intn(4); k > 0; k-- {
		switch x := r.Intn(10); {
		case x < 5:
			muts := []string{"sstore", "tstore", "log", "transfer", "sstore", "log", "tload", "precall"}
			if r.Intn(25) == 0 {
				muts = append(muts, "destroy")
			}
			it := item{Mut: muts[r.Intn(len(muts))], A: r.Intn(3), V: r.Intn(3)}
			if it.Mut == "precall" {
				it.A, it.V = r.Intn(16), r.Intn(2)
			}
			n.Items = append(n.Items, it)
		default:
			if depth < 4 && *budget > 0 {
				*budget--
				kinds := []string{"call", "call", "callcode", "delegate", "static", "create", "create2"}
				k := kinds[r.Intn(len(kinds))]
				ch := randomNode(r, depth+1, budget, static || k == "static")
				ch.Kind = k
				if (k == "create" || k == "create2") && r.Intn(4) == 0 {
					ch.End = []string{"codestore", "oversize"}[r.Intn(2)]
				}
				n.Items = append(n.Items, item{Node: ch, V: r.Intn(2)})
				if static && k == "static" && r.Intn(2) == 0 {
					// a nested static call has returned: the enclosing static frame must still refuse to write
					muts := []string{"sstore", "tstore", "log", "transfer", "destroy"}
					n.Items = append(n.Items, item{Mut: muts[r.Intn(len(muts))], A: r.Intn(3), V: r.Intn(3)})
				}
			}
		}
	}
	return n
}

func randomScenario(r *rand.Rand) []*node {
	ntx := 1 + r.Intn(3)
	budget := maxNodes - ntx
	txs := make([]*node, 0)
	for i := 0; i < ntx; i++ {
		b := budget / (ntx - i)
		budget -= b
		n := randomNode(r, 1, &b, false)
		budget += b
		n.Kind = "call"
		if i > 0 && r.Intn(2) == 0 { // later transactions probe what the earlier ones left behind
			n.Items = append([]item{{Mut: "tload", A: r.Intn(3)}}, n.Items...)
		}
		txs = append(txs, n)
	}
	return txs
}
