package main

import (
	"encoding/json"
	"fmt"
	"math/big"
	"os"

	"com.tuntun.rangers/node/src/common"
	"com.tuntun.rangers/node/src/middleware/types"
	eu "verif/harness/internal/evmutil"
	"verif/harness/internal/execdrv"
	"verif/harness/internal/vutil"
)

// Receipt layer of C12: the same frame trees, executed as real contract
// transactions through the node's block executor (core.VMExecutor via
// core.VerifExecuteBlock) on a state opened at the dev genesis root. What is
// recorded is what a user and every other node see of the transaction: the
// receipt's status and logs. The log sites of a history are numbered in the
// order of its tokens (topic = ordinal), so the monitor can compute from the
// history alone which logs survive.
func runReceipts(script, out, scratch string) {
	raw, err := os.ReadFile(script)
	if err != nil {
		vutil.Fatalf("read script: %v", err)
	}
	var hs [][]token
	if err := json.Unmarshal(raw, &hs); err != nil {
		vutil.Fatalf("parse script: %v", err)
	}
	execdrv.Boot(scratch)
	tr := vutil.NewTrace(out)
	const height = 100
	if !common.IsProposal013() {
		vutil.Fatalf("Proposal013 is not active at height %d", height)
	}
	n := 0
	for hi, h := range hs {
		txs := parseHist(h)
		if len(txs) != 1 {
			continue
		}
		st := execdrv.FreshState()
		logSeq, faultNo := 0, hi
		c := &compiler{st: st, logSeq: &logSeq, faultNo: &faultNo, noSpin: true}
		root := txs[0]
		root.id = c.alloc()
		code := c.body(root, false)
		st.CreateAccount(eu.Addr(root.id))
		st.SetCode(eu.Addr(root.id), code)
		for id := 1; id <= c.next; id++ {
			st.AddBalance(eu.Addr(id), big.NewInt(10))
		}
		d, _ := json.Marshal(types.ContractData{GasLimit: "30000000", TransferValue: "0", AbiData: "0x"})
		tx := execdrv.NewTx(types.TransactionTypeContract, execdrv.Funded[0], eu.Addr(root.id).GetHexString(), string(d), "", uint64(hi+1),
			fmt.Sprintf("c12-receipt-%d", hi))
		var res *execdrv.Result
		panik := ""
		func() {
			defer func() {
				if p := recover(); p != nil {
					panik = fmt.Sprintf("%v", p)
				}
			}()
			res = execdrv.Execute(st, height, []*types.Transaction{tx})
		}()
		if panik != "" {
			vutil.Fatalf("host panic executing history %d: %s", hi, panik)
		}
		var rc *types.Receipt
		for _, r := range res.Receipts {
			if r.TxHash == tx.Hash {
				rc = r
			}
		}
		toks := make([]map[string]interface{}, 0, len(h))
		for _, t := range h {
			toks = append(toks, map[string]interface{}{"op": t.Op, "mode": t.Mode, "kind": t.Kind})
		}
		ev := map[string]interface{}{"event": "Receipt", "hist": toks, "sites": logSeq, "found": rc != nil, "ok": false,
			"logs": []int{}, "getlogs": ordinals(st.GetLogs(tx.Hash)), "evicted": len(res.Evicted)}
		if rc != nil {
			ev["ok"] = rc.Status == types.ReceiptStatusSuccessful
			ev["logs"] = ordinals(rc.Logs)
		}
		tr.Emit(ev)
		n++
	}
	tr.Close()
	fmt.Printf("c12: events=%d receipts=%d\n", tr.N, n)
}

// ordinals: the log sites (topic 0 = ordinal of the site in the history) of a log list
func ordinals(logs []*types.Log) []int {
	out := make([]int, 0, len(logs))
	for _, l := range logs {
		t := -1
		if len(l.Topics) > 0 {
			t = small(l.Topics[0])
		}
		out = append(out, t)
	}
	return out
}
