package main

import (
	"math/big"
	"reflect"

	"com.tuntun.rangers/node/src/common"
	crypto "com.tuntun.rangers/node/src/eth_crypto"
	"com.tuntun.rangers/node/src/middleware/types"
	"com.tuntun.rangers/node/src/service"
	"com.tuntun.rangers/node/src/vm"
	eu "verif/harness/internal/evmutil"
	"verif/harness/internal/vutil"
)

// The node's own opcodes that modify state but carry no `writes` flag in the
// jump table (eips.go doProposal014): STAKE, UNSTAKE, UNSTAKEALL, AUTHCALL.
// Each scenario executes one of them inside a STATICCALL frame (and, as a
// control, inside an ordinary CALL) of a contract that is able to make it
// take effect: the account of a registered miner, or an invoker holding a
// valid AUTH signature.
const (
	opSTAKE      = 0xee
	opUNSTAKE    = 0xef
	opUNSTAKEALL = 0xeb
	opAUTH       = 0xf6
	opAUTHCALL   = 0xf7
)

var customOps = map[byte]bool{opSTAKE: true, opUNSTAKE: true, opUNSTAKEALL: true, opAUTHCALL: true}

func sameState(a, b []map[string]interface{}) bool { return reflect.DeepEqual(a, b) }

func units(n int64) *big.Int { return new(big.Int).Mul(big.NewInt(n), whole) }

func customScenarios(tr *vutil.Trace, stats map[string]int) {
	miner := eu.Addr(idMiner)
	type sc struct {
		name  string
		code  []byte
		miner bool
		input func() []byte
	}
	minerWord := uint64(0x1000 + idMiner)
	scs := []sc{
		{"stake", eu.NewAsm().PushInt(minerWord).Push(units(3).Bytes()).Op(opSTAKE, eu.POP, eu.STOP).Bytes(), true, nil},
	}
	if service.RefundManagerImpl != nil {
		scs = append(scs,
			sc{"unstake", eu.NewAsm().PushInt(minerWord).Push(units(1).Bytes()).Op(opUNSTAKE, eu.POP, eu.STOP).Bytes(), true, nil},
			sc{"unstakeall", eu.NewAsm().PushInt(minerWord).Op(opUNSTAKEALL, eu.POP, eu.STOP).Bytes(), true, nil})
	}
	// AUTH with the authority's signature over (magic, chain id, invoker, commit), then AUTHCALL with value 1
	auth := eu.NewAsm().PushInt(128).PushInt(0).PushInt(0).Op(eu.CALLDATACOPY)
	auth.PushInt(128).PushInt(0).Push(authorityAddr().Bytes()).Op(opAUTH, eu.POP)
	auth.PushInt(0).PushInt(0).PushInt(0).PushInt(0).PushInt(0).PushInt(1).PushInt(uint64(0x1000 + plainA)).PushInt(50000).PushInt(0)
	auth.Op(opAUTHCALL, eu.POP, eu.STOP)
	scs = append(scs, sc{"authcall", auth.Bytes(), false, func() []byte {
		commit := crypto.Keccak256([]byte("verif-commit"))
		msg := make([]byte, 97)
		msg[0] = 0x03
		chain := common.GetChainId(height).Bytes()
		copy(msg[33-len(chain):33], chain)
		copy(msg[33+12:65], miner.Bytes())
		copy(msg[65:], commit)
		sig, err := crypto.Sign(crypto.Keccak256(msg), authorityKey)
		if err != nil {
			vutil.Fatalf("sign: %v", err)
		}
		in := make([]byte, 128)
		in[31] = sig[64]
		copy(in[32:64], sig[0:32])
		copy(in[64:96], sig[32:64])
		copy(in[96:128], commit)
		return in
	}})

	sn := 900000
	for _, c := range scs {
		for _, static := range []bool{true, false} {
			sn++
			st := eu.NewState()
			w := newWorld(st)
			st.AddBalance(eu.Origin, units(100))
			st.CreateAccount(miner)
			st.SetCode(miner, c.code)
			st.AddBalance(miner, units(1000))
			st.AddBalance(authorityAddr(), units(5))
			if c.miner {
				id := crypto.Keccak256([]byte("verif-c12-miner"))
				m := &types.Miner{Id: id, PublicKey: []byte{1, 2, 3}, VrfPublicKey: []byte{4, 5, 6}, Type: common.MinerTypeValidator,
					Stake: common.ValidatorStake, Account: miner.Bytes(), Status: common.MinerStatusNormal}
				if ok, msg := service.MinerManagerImpl.AddMiner(miner, m, st); !ok {
					vutil.Fatalf("add miner: %s", msg)
				}
				w.minerID = id
				st.IntermediateRoot(false)
				if service.MinerManagerImpl.GetMinerIdByAccount(miner.Bytes(), st) == nil {
					vutil.Fatalf("the miner contract is not found by account")
				}
			}
			// root: forwards its call data to the contract through STATICCALL (or CALL, the control)
			r := eu.NewAsm().Op(eu.CALLDATASIZE).PushInt(0).PushInt(0).Op(eu.CALLDATACOPY)
			r.PushInt(0).PushInt(0).Op(eu.CALLDATASIZE).PushInt(0)
			if static {
				r.PushInt(minerWord).PushInt(800000).Op(eu.STATICCALL)
			} else {
				r.PushInt(0).PushInt(minerWord).PushInt(800000).Op(eu.CALL)
			}
			r.Op(eu.POP, eu.STOP)
			st.CreateAccount(eu.Addr(1))
			st.SetCode(eu.Addr(1), r.Bytes())
			var input []byte
			if c.input != nil {
				input = c.input()
			}
			tr.Emit(map[string]interface{}{"event": "Reset", "scenario": sn, "txs": 1, "custom": c.name, "static": static})
			var hashes []common.Hash
			execTx(st, w, tr, stats, sn, 0, eu.Addr(1), input, &hashes)
			stats["custom_scenarios"]++
		}
	}
}

var _ = vm.VerifSetObserver
