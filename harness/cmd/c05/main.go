// c05 drives the real block chain (core.blockChain over real LevelDB stores,
// real transaction pool, real executors) with block trees, delivery orders and
// crash points, and records the projection of the real stores after every
// call as ndjson events for spec/BlockStoreTrace.tla.
//
//	c05 batch  --scen scenarios.json --out trace.ndjson --scratch DIR [--crash all|none]
//	c05 run    --dir D --scen one.json --out t.ndjson [--crash-at k]     (child)
//	c05 reopen --dir D --scen one.json --out t.ndjson [--from i] [--crash-at k] (child)
//
// A crash is a real process death: the child exits inside the store write hook
// (H2) *before* the k-th physical write of the deliveries; the restart is a
// fresh process that re-runs the chain initialisation over the same stores.
package main

import (
	"bytes"
	"encoding/json"
	"flag"
	"fmt"
	"math/big"
	"math/rand"
	"os"
	"os/exec"
	"path/filepath"
	"sort"
	"strings"
	"sync"
	"time"

	"com.tuntun.rangers/node/src/common"
	"com.tuntun.rangers/node/src/core"
	"com.tuntun.rangers/node/src/middleware"
	"com.tuntun.rangers/node/src/middleware/db"
	"com.tuntun.rangers/node/src/middleware/types"
	"com.tuntun.rangers/node/src/service"
	"com.tuntun.rangers/node/src/storage/account"
	"verif/harness/internal/vutil"
)

const none = 99

type blockSpec struct {
	Parent int   `json:"parent"`
	Height int   `json:"height"`
	Tqn    int   `json:"tqn"`
	Pv     int   `json:"pv"`
	Rank   int   `json:"rank"`
	Txs    []int `json:"txs"`
}

// one operation of a scenario: delivery of block B through AddBlockOnChain (K = "D"), or a fork
// switch of the sync processor to the fork A -> ... -> B (K = "F")
type opSpec struct {
	K string `json:"k"`
	A int    `json:"a"`
	B int    `json:"b"`
}

type scenario struct {
	Tree  []blockSpec `json:"tree"`
	Order []opSpec    `json:"order"`
	Kind  string      `json:"kind,omitempty"`
}

var (
	fundedSources = []string{
		"0x2f4f09b722a6e5b77be17c9a99c785fa7035a09f",
		"0x42c8c9b13fc0573d18028b3398a887c4297ff646",
		"0x8744c51069589296fcb7faa2f891b1f513a0310c",
	}
	blocks  = map[int]*types.Block{} // id -> constructed block (0 = genesis)
	hashId  = map[common.Hash]int{}
	txs     = map[int]*types.Transaction{}
	maxH    int
	nBlocks int
	allTx   []int
)

func mkTx(id int) *types.Transaction {
	if t, ok := txs[id]; ok {
		return t
	}
	t := &types.Transaction{
		Type:      types.TransactionTypeOperatorEvent,
		Source:    fundedSources[id%len(fundedSources)],
		Target:    "",
		Time:      fmt.Sprintf("2024-04-22 00:00:%02d", id),
		RequestId: uint64(100 + id),
		Nonce:     uint64(id),
		ChainId:   common.ChainId(1),
	}
	t.Hash = t.GenHash()
	txs[id] = t
	return t
}

func copyBlock(b *types.Block) *types.Block {
	raw, err := types.MarshalBlock(b)
	if err != nil {
		vutil.Fatalf("marshal block: %v", err)
	}
	c, err := types.UnMarshalBlock(raw)
	if err != nil {
		vutil.Fatalf("unmarshal block: %v", err)
	}
	return c
}

func requestIds(list []*types.Transaction, last map[string]uint64) map[string]uint64 {
	result := map[string]uint64{}
	for k, v := range last {
		result[k] = v
	}
	mx := uint64(0)
	for _, t := range list {
		if t.RequestId > mx {
			mx = t.RequestId
		}
	}
	if mx != 0 && mx > result["fixed"] {
		result["fixed"] = mx
	}
	return result
}

// buildTree constructs real, valid blocks for the scenario's tree. A block's
// state root is obtained by executing its ancestors and then the block itself on
// one state object opened at the genesis root (nothing is committed, so the
// node's stores are not touched).
func buildTree(sc *scenario) {
	chain := core.GetBlockChain()
	gh := chain.QueryBlock(0)
	if gh == nil {
		vutil.Fatalf("no genesis block")
	}
	blocks[0] = gh
	hashId[gh.Header.Hash] = 0
	genesisGroup := core.GetGroupChain().GetGroupByHeight(0)
	castor := common.FromHex("0x7f88b4f2d36a83640ce5d782a0a20cc2b233de3df2d8a358bf0e7b29e9586a12")
	nBlocks = len(sc.Tree)
	seenTx := map[int]bool{}
	for i, bs := range sc.Tree {
		id := i + 1
		if bs.Height > maxH {
			maxH = bs.Height
		}
		parent := blocks[bs.Parent]
		// path genesis -> parent
		path := []int{}
		for p := bs.Parent; p != 0; p = sc.Tree[p-1].Parent {
			path = append([]int{p}, path...)
		}
		state, err := middleware.AccountDBManagerInstance.GetAccountDBByHash(gh.Header.StateTree)
		if err != nil {
			vutil.Fatalf("open genesis state: %v", err)
		}
		for _, a := range path {
			core.VerifExecuteBlock(state, copyBlock(blocks[a]), "fullverify")
		}
		list := make([]*types.Transaction, 0)
		for _, t := range bs.Txs {
			list = append(list, mkTx(t))
			if !seenTx[t] {
				seenTx[t] = true
				allTx = append(allTx, t)
			}
		}
		bh := &types.BlockHeader{
			Height:     uint64(bs.Height),
			PreHash:    parent.Header.Hash,
			PreTime:    parent.Header.CurTime,
			CurTime:    parent.Header.CurTime.Add(time.Second),
			// the model's prove values 1 < 2 < ... as numbers whose byte encodings have different
			// lengths and compare the other way round byte-wise (255 = ff, 256 = 0100, 257 = 0101 ...)
			ProveValue: big.NewInt(254 + int64(bs.Pv)),
			TotalQN:    uint64(bs.Tqn),
			Castor:     castor,
			GroupId:    genesisGroup.Id,
			Nonce:      core.ChainDataVersion,
			ExtraData:  []byte{byte(id)},
			Signature:  []byte{1},
			Random:     []byte{2},
		}
		bh.RequestIds = requestIds(list, parent.Header.RequestIds)
		blk := &types.Block{Header: bh, Transactions: list}
		root, evicted, executed, receipts := core.VerifExecuteBlock(state, blk, "fullverify")
		hashes := make([]common.Hashes, len(executed))
		for j, t := range executed {
			hashes[j] = common.Hashes{t.Hash, t.SubHash}
		}
		blk.Transactions = executed
		bh.Transactions = hashes
		bh.TxTree = core.VerifCalcTxTree(executed)
		bh.EvictedTxs = evicted
		bh.StateTree = root
		bh.ReceiptTree = core.VerifCalcReceiptsTree(receipts)
		bh.Hash = bh.GenHash()
		blocks[id] = blk
		hashId[bh.Hash] = id
	}
	sort.Ints(allTx)
}

// ranks by big-endian hash value, 1 = smallest (genesis excluded)
func hashRanks() []int {
	ids := make([]int, 0)
	for id := 1; id <= nBlocks; id++ {
		ids = append(ids, id)
	}
	sort.Slice(ids, func(i, j int) bool {
		return bytes.Compare(blocks[ids[i]].Header.Hash.Bytes(), blocks[ids[j]].Header.Hash.Bytes()) < 0
	})
	r := make([]int, nBlocks)
	for pos, id := range ids {
		r[id-1] = pos + 1
	}
	return r
}

func idOfHeader(h *types.BlockHeader) int {
	if h == nil {
		return none
	}
	if id, ok := hashId[h.Hash]; ok {
		return id
	}
	return 98
}

type roDisk struct {
	r interface {
		Get(key []byte) ([]byte, error)
		Has(key []byte) (bool, error)
	}
}

// stateOnDisk reports whether the state root resolves completely from the disk
// store alone (fresh caches): every account of the account trie is walked and
// the balances of the funded accounts are read.
func stateOnDisk(root common.Hash) (ok bool) {
	defer func() {
		if r := recover(); r != nil {
			ok = false
		}
	}()
	disk := middleware.AccountDBManagerInstance.GetTrieDB().DiskDB()
	adb := account.NewDatabase(&vutil.ReadOnlyDB{R: disk})
	st, err := account.NewAccountDB(root, adb)
	if err != nil {
		return false
	}
	for _, s := range fundedSources {
		if st.GetBalance(common.HexToAddress(s)) == nil {
			return false
		}
	}
	tr, err := adb.OpenTrie(root)
	if err != nil {
		return false
	}
	it := tr.NodeIterator(nil)
	for it.Next(true) {
	}
	return it.Error() == nil
}

// skipApi: the exported height lookups are not called for this projection (a reader scenario needs
// the height cache untouched between the restart and the call the reader races with).
var skipApi bool

func project() map[string]interface{} {
	chain := core.GetBlockChain()
	pool := service.GetTransactionPool()
	st := map[string]interface{}{}
	st["latest"] = idOfHeader(chain.TopBlock())
	st["headRec"] = idOfHeader(core.VerifRawHeadRecord())
	hashDB := make([]bool, nBlocks+1)
	byHash := make([]bool, nBlocks+1)
	sdisk := make([]bool, nBlocks+1)
	for id := 0; id <= nBlocks; id++ {
		h := blocks[id].Header.Hash
		hashDB[id] = chain.HasBlockByHash(h)
		qb := chain.QueryBlockByHash(h)
		byHash[id] = qb != nil && qb.Header.Hash == h
		if hashDB[id] {
			sdisk[id] = stateOnDisk(blocks[id].Header.StateTree)
		}
	}
	st["hashDB"] = hashDB
	st["byHash"] = byHash
	st["stateDisk"] = sdisk
	hidx := make([]int, maxH+2)
	api := make([]int, maxH+2)
	apiHash := make([]int, maxH+2)
	vidx := make([]bool, maxH+2)
	cache := make([]int, maxH+2)
	for h := 0; h <= maxH+1; h++ {
		cache[h] = cacheEntry(uint64(h))
		hidx[h] = idOfHeader(core.VerifRawHeightHeader(uint64(h)))
		if skipApi {
			api[h], apiHash[h] = none, none
			vidx[h] = core.VerifHasVerifyHash(uint64(h))
			continue
		}
		if b := chain.QueryBlock(uint64(h)); b != nil {
			api[h] = idOfHeader(b.Header)
		} else {
			api[h] = none
		}
		gh := chain.GetBlockHash(uint64(h))
		if id, ok := hashId[gh]; ok {
			apiHash[h] = id
		} else if gh == (common.Hash{}) {
			apiHash[h] = none
		} else {
			apiHash[h] = 98
		}
		vidx[h] = core.VerifHasVerifyHash(uint64(h))
	}
	st["hidx"] = hidx
	st["apiBlock"] = api
	st["apiHash"] = apiHash
	st["vidx"] = vidx
	st["cache"] = cache
	st["apiSkipped"] = skipApi
	am, rm := core.VerifBlockMarks()
	st["addMark"] = am
	st["rmMark"] = rm
	st["reorgMark"] = core.VerifReorgMark()
	executed := make([]bool, len(allTx))
	pending := make([]bool, len(allTx))
	received := map[common.Hash]bool{}
	for _, t := range pool.GetReceived() {
		received[t.Hash] = true
	}
	for i, t := range allTx {
		executed[i] = pool.GetExecuted(txs[t].Hash) != nil
		pending[i] = received[txs[t].Hash]
	}
	st["executed"] = executed
	st["pending"] = pending
	return st
}

// cacheEntry: what the LRU in front of the height index holds for h: a block id, none (99) for a
// cached "no block", 97 when there is no entry.
func cacheEntry(h uint64) int {
	hd, present := core.VerifCachedHeightHeader(h)
	if !present {
		return 97
	}
	return idOfHeader(hd)
}

// pausingDB holds ONE lookup of one key between its store read and its return.
type pausingDB struct {
	db.Database
	key     []byte
	armed   bool
	reached chan struct{}
	release chan struct{}
}

func (p *pausingDB) Get(k []byte) ([]byte, error) {
	v, err := p.Database.Get(k)
	if p.armed && bytes.Equal(k, p.key) {
		p.armed = false
		close(p.reached)
		<-p.release
	}
	return v, err
}

// readerSpec places one lock-free height lookup (GetBlockHash(h), as the rpc layer, the sync
// helper and the contract executor issue them) relative to the store writes of call At: its
// store read happens right before the K1-th write of the call (0 = before the call starts), its
// return right before the K2-th write (K2 > writes of the call = after the call returned).
type readerSpec struct {
	At, H, K1, K2 int
}

type readerCtl struct {
	spec    readerSpec
	p       *pausingDB
	started bool
	paused  bool
	doneCh  chan int
	val     int
	done    bool
}

func newReaderCtl(spec readerSpec) *readerCtl {
	rc := &readerCtl{spec: spec, val: -1}
	core.VerifWrapHeightDB(func(d db.Database) db.Database {
		rc.p = &pausingDB{Database: d}
		return rc.p
	})
	return rc
}

func (rc *readerCtl) start() {
	if rc.started {
		return
	}
	rc.started = true
	key := make([]byte, 8)
	for i := 0; i < 8; i++ {
		key[7-i] = byte(uint64(rc.spec.H) >> (8 * uint(i)))
	}
	rc.p.key, rc.p.reached, rc.p.release = key, make(chan struct{}), make(chan struct{})
	rc.p.armed = true
	rc.doneCh = make(chan int, 1)
	go func() {
		gh := core.GetBlockChain().GetBlockHash(uint64(rc.spec.H))
		id, ok := hashId[gh]
		if !ok {
			id = none
		}
		rc.doneCh <- id
	}()
	select {
	case <-rc.p.reached:
		rc.paused = true
	case v := <-rc.doneCh: // answered from the cache, the store was not read
		rc.p.armed = false
		rc.val, rc.done = v, true
	case <-time.After(20 * time.Second):
		vutil.Fatalf("reader neither paused nor returned")
	}
}

func (rc *readerCtl) finish() {
	if !rc.started {
		rc.start()
	}
	if rc.done {
		return
	}
	close(rc.p.release)
	select {
	case v := <-rc.doneCh:
		rc.val, rc.done = v, true
	case <-time.After(20 * time.Second):
		vutil.Fatalf("reader did not return")
	}
}

func (rc *readerCtl) event() map[string]interface{} {
	return map[string]interface{}{"h": rc.spec.H, "k1": rc.spec.K1, "k2": rc.spec.K2, "paused": rc.paused, "val": rc.val}
}

var resNames = map[types.AddBlockResult]string{
	types.AddBlockFailed:            "Failed",
	types.AddBlockSucc:              "Succ",
	types.BlockExisted:              "Existed",
	types.BlockTotalQnLessThanLocal: "LessQN",
	types.NoPreOnChain:              "NoPre",
	types.DependOnGroup:             "DependOnGroup",
	types.ValidateBlockOk:           "ValidateOk",
}

func loadScenario(path string) *scenario {
	b, err := os.ReadFile(path)
	if err != nil {
		vutil.Fatalf("read scenario: %v", err)
	}
	sc := &scenario{}
	if err := json.Unmarshal(b, sc); err != nil {
		vutil.Fatalf("parse scenario: %v", err)
	}
	return sc
}

func treeEvent(sc *scenario) map[string]interface{} {
	ranks := hashRanks()
	tree := make([]map[string]interface{}, 0)
	for i, bs := range sc.Tree {
		t := bs.Txs
		if t == nil {
			t = []int{}
		}
		tree = append(tree, map[string]interface{}{"parent": bs.Parent, "height": bs.Height, "tqn": bs.Tqn,
			"pv": bs.Pv, "rank": ranks[i], "txs": t})
	}
	return map[string]interface{}{"tree": tree, "txIds": allTx}
}

// deliveries runs order[from:], arming the crash hook when crashAt > 0.
func deliveries(tr *vutil.Trace, sc *scenario, from int, crashAt int, rspec *readerSpec, stopAt int) {
	chain := core.GetBlockChain()
	count := 0
	var cur, curIdx, curA int
	callStart := 0
	curK := "D"
	var rc *readerCtl
	if rspec != nil {
		rc = newReaderCtl(*rspec)
	}
	db.VerifOnWrite = func(op string, key []byte, size int) {
		count++
		if rc != nil && curIdx == rc.spec.At {
			if k := count - callStart; k >= 1 {
				if k == rc.spec.K1 {
					rc.start()
				}
				if k == rc.spec.K2 {
					rc.finish()
				}
			}
		}
		if crashAt > 0 && count == crashAt {
			tr.Emit(map[string]interface{}{"event": "Crash", "b": cur, "a": curA, "kind": curK, "idx": curIdx, "k": count, "op": op, "phase": "deliver"})
			tr.Close()
			os.Exit(77)
		}
	}
	// lock-free readers, as the rpc layer and the sync helper are in production: they query
	// blocks by height while blocks are being added and removed
	stopReaders := make(chan struct{})
	var readers sync.WaitGroup
	if crashAt == 0 && rspec == nil {
		for g := 0; g < 2; g++ {
			readers.Add(1)
			go func() {
				defer readers.Done()
				for {
					select {
					case <-stopReaders:
						return
					default:
					}
					for h := 0; h <= maxH+1; h++ {
						chain.GetBlockHash(uint64(h))
						chain.QueryBlock(uint64(h))
					}
				}
			}()
		}
	}
	defer func() {
		close(stopReaders)
		readers.Wait()
	}()
	for i := from; i < len(sc.Order); i++ {
		if stopAt > 0 && i == stopAt {
			// a clean stop at a quiescent point; the restart is a fresh process
			db.VerifOnWrite = nil
			tr.Emit(map[string]interface{}{"event": "Stop", "idx": i})
			return
		}
		op := sc.Order[i]
		cur, curIdx, curK, curA = op.B, i, op.K, op.A
		before := count
		callStart = count
		withReader := rc != nil && i == rc.spec.At
		if withReader && rc.spec.K1 == 0 {
			rc.start()
			if rc.spec.K2 == 0 {
				rc.finish()
			}
		}
		if op.K == "F" {
			// path a -> ... -> b
			path := []int{}
			for x := op.B; x != op.A && x != 0; x = sc.Tree[x-1].Parent {
				path = append([]int{x}, path...)
			}
			branch := []*types.Block{}
			for _, x := range path {
				branch = append(branch, copyBlock(blocks[x]))
				for _, t := range sc.Tree[x-1].Txs {
					service.GetTransactionPool().AddTransaction(txs[t])
				}
			}
			tr.Emit(map[string]interface{}{"event": "Calling", "k": "F", "a": op.A, "b": op.B, "idx": i})
			ok := false
			if chain.HasBlockByHash(blocks[op.A].Header.Hash) {
				ok = core.VerifForkSwitch(copyBlock(blocks[op.A]), branch)
			}
			fev := map[string]interface{}{"event": "Fork", "a": op.A, "b": op.B, "idx": i, "ok": ok, "writes": count - before}
			if withReader {
				curIdx = -1
				rc.finish()
				fev["reader"] = rc.event()
			}
			fev["state"] = project()
			tr.Emit(fev)
			continue
		}
		// the transactions of the block reach the pool before the block does
		for _, t := range sc.Tree[cur-1].Txs {
			service.GetTransactionPool().AddTransaction(txs[t])
		}
		tr.Emit(map[string]interface{}{"event": "Calling", "k": "D", "a": 0, "b": cur, "idx": i})
		res := chain.AddBlockOnChain(copyBlock(blocks[cur]))
		name, ok := resNames[res]
		if !ok {
			name = fmt.Sprintf("code%d", res)
		}
		ev := map[string]interface{}{"event": "Deliver", "b": cur, "idx": i, "res": name, "writes": count - before}
		if withReader {
			curIdx = -1
			rc.finish() // a reader placed after the last write of the call
			ev["reader"] = rc.event()
		}
		ev["state"] = project()
		tr.Emit(ev)
	}
	db.VerifOnWrite = nil
	tr.Emit(map[string]interface{}{"event": "End", "writes": count})
}

func childRun(args []string) {
	fs := flag.NewFlagSet("run", flag.ExitOnError)
	dir := fs.String("dir", "", "")
	scen := fs.String("scen", "", "")
	out := fs.String("out", "", "")
	crashAt := fs.Int("crash-at", 0, "")
	stopAt := fs.Int("stop-at", 0, "stop cleanly before delivery i")
	fs.Parse(args)
	sc := loadScenario(*scen)
	outAbs, _ := filepath.Abs(*out)
	vutil.BootChain(*dir, nil)
	buildTree(sc)
	tr := vutil.NewTrace(outAbs)
	tr.AutoFlush = true
	ev := treeEvent(sc)
	ev["event"] = "Reset"
	ev["state"] = project()
	tr.Emit(ev)
	deliveries(tr, sc, 0, *crashAt, nil, *stopAt)
	tr.Close()
}

func childReopen(args []string) {
	fs := flag.NewFlagSet("reopen", flag.ExitOnError)
	dir := fs.String("dir", "", "")
	scen := fs.String("scen", "", "")
	out := fs.String("out", "", "")
	from := fs.Int("from", 0, "")
	crashAt := fs.Int("crash-at", 0, "crash before the k-th store write of the recovery")
	reader := fs.String("reader", "", "h,k1,k2: a lock-free height lookup placed inside the first delivery after the restart")
	fs.Parse(args)
	var rspec *readerSpec
	if *reader != "" {
		rspec = &readerSpec{At: *from}
		if _, err := fmt.Sscanf(*reader, "%d,%d,%d", &rspec.H, &rspec.K1, &rspec.K2); err != nil {
			vutil.Fatalf("bad --reader: %v", err)
		}
	}
	sc := loadScenario(*scen)
	outAbs, _ := filepath.Abs(*out)
	tr := vutil.NewTrace(outAbs)
	tr.AutoFlush = true
	if *crashAt > 0 {
		count := 0
		db.VerifOnWrite = func(op string, key []byte, size int) {
			count++
			if count == *crashAt {
				tr.Emit(map[string]interface{}{"event": "Crash", "k": count, "op": op, "phase": "recover"})
				tr.Close()
				os.Exit(77)
			}
		}
	}
	vutil.BootChain(*dir, nil) // the restart: initBlockChain runs ensureChainConsistency
	db.VerifOnWrite = nil
	buildTree(sc)
	skipApi = rspec != nil
	tr.Emit(map[string]interface{}{"event": "Restart", "state": project()})
	skipApi = false
	deliveries(tr, sc, *from, 0, rspec, 0)
	tr.Close()
}

type job struct {
	n       int
	sc      scenario
	crashAt int
	crash2  int
}

// runChild runs a child process. Exit 0 and 77 (planned crash) are normal. Any other exit is
// classified: a harness failure (HARNESS-ERROR printed) or a death of the real code (panic /
// fatal error inside the node's own functions), returned as detail.
func runChild(self string, args ...string) (code int, detail string, harness bool) {
	cmd := exec.Command(self, args...)
	cmd.Env = os.Environ()
	outb, err := cmd.CombinedOutput()
	if err == nil {
		return 0, "", false
	}
	ee, ok := err.(*exec.ExitError)
	if !ok {
		vutil.Fatalf("exec child: %v", err)
	}
	if ee.ExitCode() == 77 {
		return 77, "", false
	}
	out := string(outb)
	if strings.Contains(out, "HARNESS-ERROR") {
		fmt.Fprintf(os.Stderr, "child %v harness failure:\n%s\n", args, out[max(0, len(out)-2000):])
		return ee.ExitCode(), "", true
	}
	for _, key := range []string{"panic: ", "fatal error: "} {
		if i := strings.Index(out, key); i >= 0 {
			d := out[i:]
			if j := strings.Index(d, "\n"); j >= 0 {
				d = d[:j]
			}
			if len(d) > 300 {
				d = d[:300]
			}
			return ee.ExitCode(), d, false
		}
	}
	return ee.ExitCode(), "exit " + fmt.Sprint(ee.ExitCode()) + ": " + out[max(0, len(out)-200):], false
}

func maxHOf(sc *scenario) int {
	m := 0
	for _, b := range sc.Tree {
		if b.Height > m {
			m = b.Height
		}
	}
	return m
}

func max(a, b int) int {
	if a > b {
		return a
	}
	return b
}

func readLines(path string) [][]byte {
	b, err := os.ReadFile(path)
	if err != nil {
		return nil
	}
	lines := bytes.Split(bytes.TrimSpace(b), []byte("\n"))
	if len(lines) == 1 && len(lines[0]) == 0 {
		return nil
	}
	return lines
}

func batch(args []string) {
	fs := flag.NewFlagSet("batch", flag.ExitOnError)
	scen := fs.String("scen", "", "JSON list of scenarios")
	out := fs.String("out", "trace.ndjson", "")
	scratch := fs.String("scratch", "", "")
	crash := fs.String("crash", "none", "none | all (every store write of every delivery) | double (also a second crash inside recovery)")
	par := fs.Int("par", 16, "parallel children")
	readerBudget := fs.Int("reader-budget", 40, "reader mode: placements tried per (scenario, restart point)")
	seed := fs.Int64("seed", 1, "reader mode: sampling seed")
	fs.Parse(args)
	self, _ := os.Executable()
	b, err := os.ReadFile(*scen)
	if err != nil {
		vutil.Fatalf("read scenarios: %v", err)
	}
	var scs []scenario
	if err := json.Unmarshal(b, &scs); err != nil {
		vutil.Fatalf("parse scenarios: %v", err)
	}
	os.MkdirAll(*scratch, 0755)
	var mu sync.Mutex
	outF, err := os.Create(*out)
	if err != nil {
		vutil.Fatalf("create out: %v", err)
	}
	nTraces, nCrash, nEvents, failures := 0, 0, 0, 0
	emit := func(lines [][]byte) {
		mu.Lock()
		for _, l := range lines {
			outF.Write(l)
			outF.Write([]byte("\n"))
			nEvents++
		}
		nTraces++
		mu.Unlock()
	}
	sem := make(chan struct{}, *par)
	var wg sync.WaitGroup
	for n := range scs {
		wg.Add(1)
		sem <- struct{}{}
		go func(n int) {
			defer wg.Done()
			defer func() { <-sem }()
			sc := scs[n]
			base := filepath.Join(*scratch, fmt.Sprintf("s%05d", n))
			os.MkdirAll(base, 0755)
			sp := filepath.Join(base, "scen.json")
			sb, _ := json.Marshal(sc)
			os.WriteFile(sp, sb, 0644)
			fail := func() {
				mu.Lock()
				failures++
				mu.Unlock()
			}
			died := func(phase, detail string, sofar [][]byte) []byte {
				var c struct {
					B   int    `json:"b"`
					A   int    `json:"a"`
					K   string `json:"k"`
					Idx int    `json:"idx"`
				}
				for _, l := range sofar {
					if bytes.Contains(l, []byte(`"event":"Calling"`)) {
						json.Unmarshal(l, &c)
					}
				}
				if c.K == "" {
					c.K = "D"
				}
				b, _ := json.Marshal(map[string]interface{}{"event": "Died", "phase": phase, "detail": detail, "b": c.B, "a": c.A, "kind": c.K, "idx": c.Idx})
				return b
			}
			// reopen runs a restart (+ the remaining deliveries); a death of the real code during
			// the restart is an observation (RestartFailed), not a harness failure
			reopen := func(dir, tfile string, from int, crashAt int) (lines [][]byte, code int, ok bool) {
				args := []string{"reopen", "--dir", dir, "--scen", sp, "--out", tfile, "--from", fmt.Sprint(from)}
				if crashAt > 0 {
					args = append(args, "--crash-at", fmt.Sprint(crashAt))
				}
				code, detail, harness := runChild(self, args...)
				if harness {
					fail()
					return nil, code, false
				}
				lines = readLines(tfile)
				if code != 0 && code != 77 {
					hasRestart := false
					for _, l := range lines {
						if bytes.Contains(l, []byte(`"event":"Restart"`)) {
							hasRestart = true
						}
					}
					ev := "RestartFailed"
					if hasRestart {
						ev = "Died"
					}
					b, _ := json.Marshal(map[string]interface{}{"event": ev, "phase": "recover", "detail": detail})
					lines = append(lines, b)
				}
				return lines, code, true
			}
			// uninterrupted run
			d0 := filepath.Join(base, "plain")
			t0 := filepath.Join(base, "plain.ndjson")
			code, detail, harness := runChild(self, "run", "--dir", d0, "--scen", sp, "--out", t0)
			if harness {
				fail()
				return
			}
			lines := readLines(t0)
			if code != 0 {
				// the node died inside AddBlockOnChain on its own: record it, restart, go on
				lines = append(lines, died("deliver", detail, lines))
				l2, _, ok := reopen(d0, filepath.Join(base, "plain-b.ndjson"), len(sc.Order), 0)
				if ok {
					lines = append(lines, l2...)
				}
				emit(lines)
				os.RemoveAll(d0)
				return
			}
			emit(lines)
			os.RemoveAll(d0)
			if *crash == "none" {
				return
			}
			if *crash == "reader" {
				// a clean stop before delivery i, a restart (the head height is then not in the height
				// cache), and delivery i with one lock-free height lookup whose store read and return
				// are placed before chosen store writes of that call
				type dl struct {
					Event  string `json:"event"`
					Idx    int    `json:"idx"`
					Writes int    `json:"writes"`
				}
				writesOf := map[int]int{}
				for _, l := range lines {
					var d dl
					if json.Unmarshal(l, &d) == nil && (d.Event == "Deliver" || d.Event == "Fork") {
						writesOf[d.Idx] = d.Writes
					}
				}
				rng := rand.New(rand.NewSource(*seed*7919 + int64(n)))
				for i := 1; i < len(sc.Order); i++ {
					w := writesOf[i]
					ds := filepath.Join(base, fmt.Sprintf("stop%02d", i))
					ts := filepath.Join(base, fmt.Sprintf("stop%02d.ndjson", i))
					if code, _, harness := runChild(self, "run", "--dir", ds, "--scen", sp, "--out", ts, "--stop-at", fmt.Sprint(i)); harness || code != 0 {
						fail()
						os.RemoveAll(ds)
						continue
					}
					l1 := readLines(ts)
					type placement struct{ h, k1, k2 int }
					var all []placement
					for h := 0; h <= maxHOf(&sc)+1; h++ {
						for k1 := 0; k1 <= w+1; k1++ {
							for k2 := k1; k2 <= w+1; k2++ {
								all = append(all, placement{h, k1, k2})
							}
						}
					}
					rng.Shuffle(len(all), func(a, b int) { all[a], all[b] = all[b], all[a] })
					// the lookups that straddle the whole call (read before it, return after it) always
					// come first, then those that straddle its head or its tail, then the sample
					rank := make(map[placement]int, len(all))
					for _, p := range all {
						switch {
						case p.k1 == 0 && p.k2 == w+1:
							rank[p] = 0
						case p.k1 == 0 || p.k2 == w+1:
							rank[p] = 1 + rng.Intn(3)
						default:
							rank[p] = 3
						}
					}
					sort.SliceStable(all, func(a, b int) bool { return rank[all[a]] < rank[all[b]] })
					if len(all) > *readerBudget {
						all = all[:*readerBudget]
					}
					for j, pl := range all {
						dj := filepath.Join(base, fmt.Sprintf("stop%02d-r%03d", i, j))
						if err := exec.Command("cp", "-r", ds, dj).Run(); err != nil {
							vutil.Fatalf("cp: %v", err)
						}
						tj := filepath.Join(base, fmt.Sprintf("stop%02d-r%03d.ndjson", i, j))
						code, detail, harness := runChild(self, "reopen", "--dir", dj, "--scen", sp, "--out", tj, "--from", fmt.Sprint(i),
							"--reader", fmt.Sprintf("%d,%d,%d", pl.h, pl.k1, pl.k2))
						if harness {
							fail()
							os.RemoveAll(dj)
							continue
						}
						l2 := readLines(tj)
						if code != 0 {
							l2 = append(l2, died("deliver", detail, l2))
						}
						emit(append(append([][]byte{}, l1...), l2...))
						mu.Lock()
						nCrash++
						mu.Unlock()
						os.RemoveAll(dj)
					}
					os.RemoveAll(ds)
				}
				os.RemoveAll(base)
				return
			}
			var end struct {
				Writes int `json:"writes"`
			}
			json.Unmarshal(lines[len(lines)-1], &end)
			for k := 1; k <= end.Writes; k++ {
				dk := filepath.Join(base, fmt.Sprintf("c%03d", k))
				t1 := filepath.Join(base, fmt.Sprintf("c%03d-a.ndjson", k))
				code, detail, harness := runChild(self, "run", "--dir", dk, "--scen", sp, "--out", t1, "--crash-at", fmt.Sprint(k))
				if harness {
					fail()
					os.RemoveAll(dk)
					continue
				}
				l1 := readLines(t1)
				if code != 77 {
					l1 = append(l1, died("deliver", detail, l1))
				}
				var cr struct {
					Idx int `json:"idx"`
				}
				json.Unmarshal(l1[len(l1)-1], &cr)
				if *crash == "double" && code == 77 {
					// crash again before the j-th write of the recovery, for every j, each on its own copy
					for j := 1; ; j++ {
						dj := filepath.Join(base, fmt.Sprintf("c%03d-r%02d", k, j))
						if err := exec.Command("cp", "-r", dk, dj).Run(); err != nil {
							vutil.Fatalf("cp: %v", err)
						}
						l2, code2, ok := reopen(dj, filepath.Join(base, fmt.Sprintf("c%03d-r%02d-b.ndjson", k, j)), cr.Idx, j)
						if !ok || code2 != 77 {
							os.RemoveAll(dj)
							break // recovery has fewer than j writes (or failed)
						}
						l3, _, ok := reopen(dj, filepath.Join(base, fmt.Sprintf("c%03d-r%02d-c.ndjson", k, j)), cr.Idx, 0)
						if ok {
							emit(append(append(append([][]byte{}, l1...), l2...), l3...))
							mu.Lock()
							nCrash++
							mu.Unlock()
						}
						os.RemoveAll(dj)
					}
				}
				l2, _, ok := reopen(dk, filepath.Join(base, fmt.Sprintf("c%03d-b.ndjson", k)), cr.Idx, 0)
				if ok {
					emit(append(append([][]byte{}, l1...), l2...))
					mu.Lock()
					nCrash++
					mu.Unlock()
				}
				os.RemoveAll(dk)
			}
			os.RemoveAll(base)
		}(n)
	}
	wg.Wait()
	outF.Close()
	fmt.Printf("c05: scenarios=%d traces=%d crashruns=%d events=%d failures=%d\n", len(scs), nTraces, nCrash, nEvents, failures)
	if failures > 0 {
		os.Exit(2)
	}
}

func main() {
	if len(os.Args) < 2 {
		vutil.Fatalf("usage: c05 batch|run|reopen ...")
	}
	switch os.Args[1] {
	case "batch":
		batch(os.Args[2:])
	case "run":
		childRun(os.Args[2:])
	case "reopen":
		childReopen(os.Args[2:])
	default:
		vutil.Fatalf("unknown mode %s", os.Args[1])
	}
}
