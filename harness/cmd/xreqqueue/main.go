// xreqqueue replays call histories on the real gateway request queue
// (middleware.PriorityQueue: heapPush through hook export H8, SetThreshold,
// the handler installed with SetHandle) and records, per call, what the
// handler received, the threshold and the waiting ids, as ndjson for
// spec/ReqQueueTrace.tla.
package main

import (
	"encoding/json"
	"flag"
	"fmt"
	"os"
	"path/filepath"
	"sort"

	"com.tuntun.rangers/node/src/middleware"
	"com.tuntun.rangers/node/src/middleware/notify"
	"verif/harness/internal/vutil"
)

type op struct {
	Op string `json:"op"`
	N  uint64 `json:"n"`
}

func main() {
	out := flag.String("out", "trace.ndjson", "")
	script := flag.String("script", "", "JSON list of histories")
	scratch := flag.String("scratch", "", "")
	nRandom := flag.Int("random", 0, "seeded random histories")
	length := flag.Int("len", 30, "")
	maxId := flag.Int("max-id", 7, "")
	salt := flag.Int64("salt", 0, "")
	flag.Parse()
	outAbs, _ := filepath.Abs(*out)
	var histories [][]op
	if *script != "" {
		b, err := os.ReadFile(*script)
		if err != nil {
			vutil.Fatalf("read script: %v", err)
		}
		if err := json.Unmarshal(b, &histories); err != nil {
			vutil.Fatalf("parse script: %v", err)
		}
	}
	if *scratch == "" {
		vutil.Fatalf("--scratch required")
	}
	vutil.BootServices(*scratch) // the queue takes the middleware's chain lock
	rng := vutil.Rng(4242 + 1000**salt)
	for i := 0; i < *nRandom; i++ {
		h := make([]op, 0, *length)
		for j := 0; j < *length; j++ {
			if rng.Intn(5) == 0 {
				h = append(h, op{"SetThreshold", uint64(rng.Intn(*maxId + 1))})
			} else {
				h = append(h, op{"Push", uint64(rng.Intn(*maxId + 1))})
			}
		}
		histories = append(histories, h)
	}
	tr := vutil.NewTrace(outAbs)
	calls := 0
	for _, h := range histories {
		pq := middleware.NewPriorityQueue()
		var got []uint64
		pq.SetHandle(func(it *middleware.Item) { got = append(got, it.Value.Nonce) })
		tr.Emit(map[string]interface{}{"event": "Reset"})
		for _, o := range h {
			got = []uint64{}
			switch o.Op {
			case "Push":
				middleware.VerifQueuePush(pq, &notify.ClientTransactionMessage{Nonce: o.N})
			case "SetThreshold":
				pq.SetThreshold(o.N)
			default:
				vutil.Fatalf("unknown op %q", o.Op)
			}
			w := middleware.VerifQueueWaiting(pq)
			sort.Slice(w, func(a, b int) bool { return w[a] < w[b] })
			tr.Emit(map[string]interface{}{"event": o.Op, "n": o.N, "out": got, "thr": pq.GetThreshold(), "waiting": w})
			calls++
		}
	}
	tr.Close()
	fmt.Printf("xreqqueue: histories=%d calls=%d events=%d\n", len(histories), calls, tr.N)
}
