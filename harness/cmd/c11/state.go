// State mode of c11: exact gas accounting of the state-access instructions.
// TLC (spec/EvmGasState.tla) enumerates the SSTORE value lattice and the case
// lattices of account reads, call instructions and SELFDESTRUCT; every case is
// compiled to byte code, run on the real EVM and, for every state-access
// instruction, the gas at fetch, the cost, the gas after charge and after
// execution, the refund counter before and after, and the facts about the
// state the price depends on (values of the slot, emptiness of the callee,
// access-list membership ...) are recorded for spec/EvmGasStateTrace.tla.
package main

import (
	"encoding/json"
	"fmt"
	"math/big"
	"os"

	"com.tuntun.rangers/node/src/common"
	"com.tuntun.rangers/node/src/middleware/types"
	"com.tuntun.rangers/node/src/storage/account"
	"com.tuntun.rangers/node/src/vm"
	"github.com/holiman/uint256"
	eu "verif/harness/internal/evmutil"
	"verif/harness/internal/vutil"
)

type sstoreCase struct {
	Orig   int   `json:"orig"`
	Writes []int `json:"writes"`
}

type xCase struct {
	Fam     string `json:"fam"`
	Op      string `json:"op"`
	Target  string `json:"target"`
	Again   bool   `json:"again"`
	Depth   int    `json:"depth"`
	Value   int    `json:"value"`
	Gas     string `json:"gas"`
	Mem     string `json:"mem"`
	Balance int    `json:"balance"`
	Twice   bool   `json:"twice"`
}

type stateScript struct {
	Sstore []sstoreCase `json:"sstore"`
	X      []xCase      `json:"x"`
}

const (
	idParent   = 4
	idSubject  = 5
	idPlain    = 6
	idAbsent   = 7
	idContract = 3
)

var latticeValue = []uint64{0, 0xa1, 0xb2}

func targetAddr(t string) uint64 {
	switch t {
	case "self":
		return 0x1000 + idSubject
	case "contract":
		return 0x1000 + idContract
	case "plain":
		return 0x1000 + idPlain
	case "absent":
		return 0x1000 + idAbsent
	case "precompile":
		return 4
	}
	vutil.Fatalf("unknown target %q", t)
	return 0
}

func addrFromWord(w *uint256.Int) common.Address { return common.Address(w.Bytes20()) }

func smallWord(w *uint256.Int) int {
	if w.BitLen() > 30 {
		return 1 << 30
	}
	return int(w.Uint64())
}

func smallHash(h common.Hash) int {
	var w uint256.Int
	w.SetBytes(h.Bytes())
	return smallWord(&w)
}

var stateOps = map[byte]string{0x54: "SLOAD", 0x55: "SSTORE", 0x31: "BALANCE", 0x3b: "EXTCODESIZE", 0x3c: "EXTCODECOPY",
	0x3f: "EXTCODEHASH", 0x5c: "TLOAD", 0x5d: "TSTORE", 0xf1: "CALL", 0xf2: "CALLCODE", 0xf4: "DELEGATECALL",
	0xfa: "STATICCALL", 0xff: "SELFDESTRUCT"}

type pendingX struct {
	g0, cost, g1 uint64
	ml0, ml1     int
	refund0      uint64
	pre          map[string]interface{}
	req          int
}

// stateObserver adds the X* events to the recorder's frame events.
type stateObserver struct {
	*eu.Recorder
	st      *account.AccountDB
	tr      *vutil.Trace
	pend    map[int]*pendingX
	orig    int // value of the subject's slot when the transaction started
	touched []common.Address
}

func (o *stateObserver) StepFetched(s *vm.VerifStep) {
	o.Recorder.StepFetched(s)
	op := byte(s.Op)
	if _, ok := stateOps[op]; !ok {
		delete(o.pend, s.Depth)
		return
	}
	p := &pendingX{g0: s.Gas, ml0: len(s.Mem), refund0: o.st.GetRefund(), req: 0}
	pre := map[string]interface{}{"vnz": false, "empty": false, "exists": false, "balnz": false, "dead": false, "len": 0,
		"warmAddr": false, "warmSlot": false, "o": 0, "c": 0, "n": 0}
	n := len(s.Stack)
	top := func(i int) *uint256.Int { return &s.Stack[n-1-i] }
	self := s.Address
	switch {
	case op == 0x54 && n >= 1:
		_, ws := o.st.SlotInAccessList(self, common.Hash(top(0).Bytes32()))
		pre["warmSlot"] = ws
	case op == 0x55 && n >= 2:
		key := common.Hash(top(0).Bytes32())
		_, ws := o.st.SlotInAccessList(self, key)
		pre["warmSlot"] = ws
		// the original value is what the driver stored before the transaction: AccountDB.GetCommittedState is not
		// used here because it is not a pure read (it overwrites the account's cached slot with the committed value)
		pre["o"], pre["c"], pre["n"] = o.orig, smallHash(o.st.GetState(self, key)), smallWord(top(1))
	case (op == 0x31 || op == 0x3b || op == 0x3f || op == 0x3c) && n >= 1:
		a := addrFromWord(top(0))
		pre["warmAddr"], pre["exists"], pre["empty"] = o.st.AddressInAccessList(a), o.st.Exist(a), o.st.Empty(a)
		if op == 0x3c && n >= 4 {
			pre["len"] = smallWord(top(3))
		}
		o.touched = append(o.touched, a)
	case (op == 0xf1 || op == 0xf2) && n >= 7:
		a := addrFromWord(top(1))
		pre["vnz"], pre["empty"], pre["exists"], pre["warmAddr"] = !top(2).IsZero(), o.st.Empty(a), o.st.Exist(a), o.st.AddressInAccessList(a)
		p.req = smallWord(top(0))
		o.touched = append(o.touched, a)
	case (op == 0xf4 || op == 0xfa) && n >= 6:
		a := addrFromWord(top(1))
		pre["empty"], pre["exists"], pre["warmAddr"] = o.st.Empty(a), o.st.Exist(a), o.st.AddressInAccessList(a)
		p.req = smallWord(top(0))
		o.touched = append(o.touched, a)
	case op == 0xff && n >= 1:
		a := addrFromWord(top(0))
		pre["empty"], pre["exists"], pre["warmAddr"] = o.st.Empty(a), o.st.Exist(a), o.st.AddressInAccessList(a)
		pre["balnz"], pre["dead"] = o.st.GetBalance(self).Sign() != 0, o.st.HasSuicided(self)
	}
	p.pre = pre
	o.pend[s.Depth] = p
}

func (o *stateObserver) StepCharged(s *vm.VerifStep) {
	o.Recorder.StepCharged(s)
	p := o.pend[s.Depth]
	if p == nil {
		return
	}
	p.cost, p.g1, p.ml1 = s.Cost, s.Gas, len(s.Mem)
	op := byte(s.Op)
	if op == 0xf1 || op == 0xf2 || op == 0xf4 || op == 0xfa {
		o.tr.Emit(map[string]interface{}{"event": "XCall", "depth": s.Depth, "op": int(op), "g0": int(p.g0), "cost": int(p.cost),
			"g1": int(p.g1), "ml0": p.ml0, "ml1": p.ml1, "pre": p.pre, "req": p.req})
	}
}

func (o *stateObserver) StepDone(s *vm.VerifStep, res []byte, err error) {
	o.Recorder.StepDone(s, res, err)
	p := o.pend[s.Depth]
	if p == nil {
		return
	}
	delete(o.pend, s.Depth)
	if err != nil {
		return
	}
	op := byte(s.Op)
	ok := true
	if (op == 0xf1 || op == 0xf2 || op == 0xf4 || op == 0xfa) && len(s.Stack) > 0 {
		ok = !s.Stack[len(s.Stack)-1].IsZero()
	}
	o.tr.Emit(map[string]interface{}{"event": "XStep", "depth": s.Depth, "op": int(op), "name": stateOps[op], "pc": int(s.Pc),
		"g0": int(p.g0), "cost": int(p.cost), "g1": int(p.g1), "g2": int(s.Gas), "ml0": p.ml0, "ml1": p.ml1, "pre": p.pre,
		"req": p.req, "refund0": int(p.refund0), "refund1": int(o.st.GetRefund()), "ok": ok})
}

// ------------------------------------------------------------------ compile

func pushAddr(a *eu.Asm, x uint64) { a.PushInt(x) }

func compileSstore(c sstoreCase, prewarm, revert bool) []byte {
	a := eu.NewAsm()
	if prewarm {
		a.PushInt(1).Op(eu.SLOAD, eu.POP)
	}
	for _, w := range c.Writes {
		a.PushInt(latticeValue[w]).PushInt(1).Op(eu.SSTORE)
	}
	a.PushInt(1).Op(eu.SLOAD, eu.POP)
	if revert {
		a.PushInt(0).PushInt(0).Op(eu.REVERT)
	} else {
		a.Op(eu.STOP)
	}
	return a.Bytes()
}

func compileX(c xCase) []byte {
	a := eu.NewAsm()
	reps := 1
	switch c.Fam {
	case "access":
		if c.Again {
			reps = 2
		}
		for i := 0; i < reps; i++ {
			switch c.Op {
			case "sload":
				a.PushInt(1).Op(eu.SLOAD, eu.POP)
			case "balance":
				pushAddr(a, targetAddr(c.Target))
				a.Op(eu.BALANCE, eu.POP)
			case "extcodesize":
				pushAddr(a, targetAddr(c.Target))
				a.Op(eu.EXTCODESIZE, eu.POP)
			case "extcodehash":
				pushAddr(a, targetAddr(c.Target))
				a.Op(eu.EXTCODEHASH, eu.POP)
			case "extcodecopy":
				a.PushInt(40).PushInt(0).PushInt(uint64(70 * i))
				pushAddr(a, targetAddr(c.Target))
				a.Op(eu.EXTCODECOPY)
			}
		}
	case "call":
		for i := 0; i < 2; i++ { // twice: the second call meets what the first left (account created, memory grown)
			inLen, outOff, outLen := uint64(0), uint64(0), uint64(0)
			if c.Mem == "in" {
				inLen = 64
			}
			if c.Mem == "out" {
				outOff, outLen = 100, 64
			}
			a.PushInt(outLen).PushInt(outOff).PushInt(inLen).PushInt(0)
			var op byte
			switch c.Op {
			case "call":
				op = eu.CALL
			case "callcode":
				op = eu.CALLCODE
			case "delegatecall":
				op = eu.DELEGATECALL
			default:
				op = eu.STATICCALL
			}
			if op == eu.CALL || op == eu.CALLCODE {
				a.PushInt(uint64(c.Value))
			}
			pushAddr(a, targetAddr(c.Target))
			if c.Gas == "all" {
				a.Op(eu.GAS)
			} else {
				a.Push(classValue(c.Gas).Bytes())
			}
			a.Op(op, eu.POP)
		}
	case "destroy":
		pushAddr(a, targetAddr(c.Target))
		a.Op(eu.SELFDESTRUCT)
	}
	a.Op(eu.STOP)
	return a.Bytes()
}

// runState executes one compiled case: the subject contract directly (depth 0)
// or through a parent that calls it once or twice with all its gas (depth 1).
func runState(tr *vutil.Trace, fam string, desc interface{}, code []byte, depth, calls int, origSlot uint64, subjectBalance int64,
	gas uint64, cfgM int, p015 bool) {
	runID++
	st := eu.NewState()
	st.AddBalance(eu.Origin, big.NewInt(1000000000))
	st.CreateAccount(eu.Addr(idSubject))
	st.SetCode(eu.Addr(idSubject), code)
	if subjectBalance > 0 {
		st.AddBalance(eu.Addr(idSubject), big.NewInt(subjectBalance))
	}
	if origSlot != 0 {
		st.SetState(eu.Addr(idSubject), common.BigToHash(big.NewInt(1)), common.BigToHash(new(big.Int).SetUint64(origSlot)))
	}
	st.CreateAccount(eu.Addr(idContract))
	st.SetCode(eu.Addr(idContract), []byte{eu.PUSH1, 64, eu.PUSH1, 0, eu.RETURN})
	st.AddBalance(eu.Addr(idContract), big.NewInt(7))
	st.AddBalance(eu.Addr(idPlain), big.NewInt(5))
	parent := eu.NewAsm()
	for i := 0; i < calls; i++ {
		parent.PushInt(0).PushInt(0).PushInt(0).PushInt(0).PushInt(0).PushInt(0x1000+idSubject).Op(eu.GAS, eu.CALL, eu.POP)
	}
	parent.PushInt(1).Op(eu.SLOAD, eu.POP, eu.STOP)
	st.CreateAccount(eu.Addr(idParent))
	st.SetCode(eu.Addr(idParent), parent.Bytes())
	st.AddBalance(eu.Addr(idParent), big.NewInt(3))
	// the values above are the transaction's "original" values: write them through to the tries
	st.IntermediateRoot(false)
	st.Prepare(common.BytesToHash([]byte(fmt.Sprintf("state-tx-%d", runID))), common.Hash{}, 0)

	rec := eu.NewRecorder(tr, eu.Options{Frames: true, MaxFaults: 50, StepFilter: func(int, byte) bool { return false }})
	obs := &stateObserver{Recorder: rec, st: st, tr: tr, pend: map[int]*pendingX{}, orig: int(origSlot)}
	vm.VerifSetObserver(obs)
	defer vm.VerifSetObserver(nil)
	rec.BeginRun(runID)
	evm := eu.NewEVM(st, height, gas)
	entry := eu.Addr(idSubject)
	if depth == 1 {
		entry = eu.Addr(idParent)
	}
	tr.Emit(map[string]interface{}{"event": "XBegin", "run": runID, "fam": fam, "case": desc, "gas": int(gas), "m": cfgM, "p015": p015,
		"depth": depth})
	var (
		err   error
		left  uint64
		logs  []*types.Log
		panik = ""
	)
	func() {
		defer func() {
			if p := recover(); p != nil {
				panik = fmt.Sprintf("%v", p)
			}
		}()
		_, left, logs, err = evm.Call(vm.AccountRef(eu.Origin), entry, nil, gas, big.NewInt(0))
	}()
	_ = logs
	inList := 0
	for _, a := range obs.touched {
		if st.AddressInAccessList(a) {
			inList++
		}
	}
	tr.Emit(map[string]interface{}{"event": "XEnd", "run": runID, "err": eu.ErrClass(err), "failed": err != nil, "gasLeft": int(left),
		"limit": int(gas), "refund": int(st.GetRefund()), "panic": panik != "", "touched": len(obs.touched), "touchedInAccessList": inList})
	stats["state_runs"]++
}

// probeCommitted: write a slot, commit, overwrite it, then ask for the committed value in between two reads.
func probeCommitted(tr *vutil.Trace) {
	st := eu.NewState()
	a, k := eu.Addr(idSubject), common.BigToHash(big.NewInt(1))
	st.CreateAccount(a)
	st.SetState(a, k, common.BigToHash(big.NewInt(0xa1)))
	st.IntermediateRoot(false)
	st.SetState(a, k, common.BigToHash(big.NewInt(0xb2)))
	before := smallHash(st.GetState(a, k))
	committed := smallHash(st.GetCommittedState(a, k))
	after := smallHash(st.GetState(a, k))
	tr.Emit(map[string]interface{}{"event": "XProbe", "before": before, "committed": committed, "after": after})
}

func runStateScript(path string, tr *vutil.Trace, cfgM int, p015 bool) {
	probeCommitted(tr)
	raw, err := os.ReadFile(path)
	if err != nil {
		vutil.Fatalf("read state script: %v", err)
	}
	var sc stateScript
	if err := json.Unmarshal(raw, &sc); err != nil {
		vutil.Fatalf("parse state script: %v", err)
	}
	gas := uint64(1000000)
	if cfgM > 1 {
		gas = 30000000
	}
	for i, c := range sc.Sstore {
		for depth := 0; depth <= 1; depth++ {
			for _, revert := range []bool{false, true} {
				code := compileSstore(c, i%2 == 1, revert)
				runState(tr, "sstore", map[string]interface{}{"orig": c.Orig, "writes": c.Writes, "prewarm": i%2 == 1, "revert": revert},
					code, depth, 1, latticeValue[c.Orig], 0, gas, cfgM, p015)
			}
		}
	}
	for _, c := range sc.X {
		depth, calls, bal := c.Depth, 1, int64(0)
		if c.Fam == "call" {
			depth, bal = 0, 9
		}
		if c.Fam == "destroy" {
			depth, bal = 1, int64(9*c.Balance)
			if c.Twice {
				calls = 2
			}
		}
		runState(tr, c.Fam, c, compileX(c), depth, calls, 0, bal, gas, cfgM, p015)
	}
}
