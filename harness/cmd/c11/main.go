// c11 runs arbitrary byte strings as contract code on the real EVM
// (vm.NewEVM(...).Call / Create on a real AccountDB, vm.RunPrecompiledContract)
// with gas limits from 0 upward and records, through hook H6, the gas, stack
// and memory bounds of every interpreter step and frame for
// spec/EvmGasTrace.tla. No operand values are logged: C11 is about bounds.
package main

import (
	"encoding/json"
	"flag"
	"fmt"
	"math/big"
	"math/rand"
	"os"
	"sort"
	"strings"

	"com.tuntun.rangers/node/src/common"
	"com.tuntun.rangers/node/src/vm"
	eu "verif/harness/internal/evmutil"
	"verif/harness/internal/vutil"
)

// hardSteps: no run can take this many steps while gas decreases by at least 1 per step (gas limits <= 10^7;
// the runs that reach the depth limit take some ten thousand); beyond it the EVM is cancelled and the run judged.
const hardSteps = 30000000

// maxEvents bounds the trace of one driver process.
const maxEvents = 4000000

var (
	tr     *vutil.Trace
	rec    *eu.Recorder
	height uint64 = 100
	runID  int
	stats  = map[string]int{}
	kinds  = map[string]int{}
	ends   = map[string]int{}
)

// the TLC memory-operand case the current run belongs to (classes of spec/EvmGasGen.tla), if any
var noCase = map[string]interface{}{"op": "", "a": "", "b": "", "c": ""}
var curCase = noCase

type job struct {
	kind   string
	code   []byte
	data   []byte
	gas    uint64
	value  int64
	create bool
}

// execute runs one job on a fresh state; every outcome, including a host
// panic, is recorded in the End event.
func execute(j job) {
	runID++
	st := eu.NewState()
	self := eu.Addr(1)
	st.AddBalance(eu.Origin, big.NewInt(1000000000))
	if !j.create {
		st.CreateAccount(self)
		st.SetCode(self, j.code)
		st.AddBalance(self, big.NewInt(5000))
	}
	// a second contract that always reverts and one that returns 64 bytes, as call targets
	st.CreateAccount(eu.Addr(2))
	st.SetCode(eu.Addr(2), []byte{eu.PUSH1, 0, eu.PUSH1, 0, eu.REVERT})
	st.CreateAccount(eu.Addr(3))
	st.SetCode(eu.Addr(3), []byte{eu.PUSH1, 64, eu.PUSH1, 0, eu.RETURN})
	evm := eu.NewEVM(st, height, j.gas)
	tr.Emit(map[string]interface{}{"event": "Begin", "run": runID, "kind": j.kind, "gas": eu.GasDigits(j.gas), "mcase": curCase,
		"codeLen": len(j.code), "dataLen": len(j.data), "create": j.create, "value": int(j.value), "depth": 0})
	rec.BeginRun(runID)
	var (
		err     error
		left    uint64
		ret     []byte
		panik   = ""
		panicOp = -1
	)
	func() {
		defer func() {
			if p := recover(); p != nil {
				panik = fmt.Sprintf("%v", p)
				if len(panik) > 200 {
					panik = panik[:200]
				}
				panicOp = rec.PanicOp
			}
		}()
		if j.create {
			ret, _, left, _, err = evm.Create(vm.AccountRef(eu.Origin), j.code, j.gas, big.NewInt(j.value))
		} else {
			ret, left, _, err = evm.Call(vm.AccountRef(eu.Origin), self, j.data, j.gas, big.NewInt(j.value))
		}
	}()
	cls := eu.ErrClass(err)
	tr.Emit(map[string]interface{}{"event": "End", "run": runID, "depth": 0, "err": cls, "failed": err != nil,
		"gasLeft": eu.GasDigits(left), "retLen": len(ret), "panic": panik != "", "panicText": panik, "panicOp": panicOp,
		"truncated": rec.Truncated, "steps": rec.Steps, "frames": rec.FramesSeen, "open": rec.Depth(), "cancelled": rec.Cancelled})
	if tr.N > maxEvents {
		vutil.Fatalf("trace budget of %d events exceeded", maxEvents)
	}
	stats["runs"]++
	stats["steps"] += rec.Steps
	stats["frames"] += rec.FramesSeen
	kinds[j.kind]++
	if panik != "" {
		ends["PANIC"]++
	} else if strings.HasPrefix(cls, "other:") {
		ends["other"]++
	} else {
		ends["end-"+cls]++
	}
}

// precompile calls vm.RunPrecompiledContract directly.
func precompile(r *rand.Rand, addr int, input []byte, gas uint64) {
	runID++
	key := make([]byte, 20)
	key[19] = byte(addr)
	p, ok := vm.PrecompiledContracts[common.BytesToAddress(key)]
	if !ok {
		vutil.Fatalf("no precompile at %d", addr)
	}
	var (
		err   error
		left  uint64
		ret   []byte
		panik = ""
	)
	func() {
		defer func() {
			if x := recover(); x != nil {
				panik = fmt.Sprintf("%v", x)
				if len(panik) > 200 {
					panik = panik[:200]
				}
			}
		}()
		ret, left, err = vm.RunPrecompiledContract(p, input, gas)
	}()
	tr.Emit(map[string]interface{}{"event": "Precompile", "run": runID, "depth": 0, "addr": addr, "inLen": len(input),
		"gas": eu.GasDigits(gas), "gasLeft": eu.GasDigits(left), "failed": err != nil, "retLen": len(ret),
		"panic": panik != "", "panicText": panik})
	stats["precompile_calls"]++
	if panik != "" {
		ends["PANIC"]++
	}
}

// ------------------------------------------------------------- generators

var gasLimits = []uint64{0, 1, 2, 3, 5, 9, 20, 21, 22, 99, 100, 101, 699, 700, 701, 2299, 2300, 2301, 8999, 9000, 9001,
	24999, 25000, 31999, 32000, 32001, 53000, 100000, 1000000}

func pickGas(r *rand.Rand) uint64 {
	switch r.Intn(10) {
	case 0, 1, 2:
		return gasLimits[r.Intn(len(gasLimits))]
	case 3:
		return uint64(r.Intn(3000))
	case 4:
		return 10000000
	default:
		return uint64(1000 + r.Intn(300000))
	}
}

var definedOps []byte

func randBytes(r *rand.Rand, n int) []byte {
	b := make([]byte, n)
	r.Read(b)
	return b
}

// weighted: defined opcodes with small pushed operands so that instructions find operands
func weighted(r *rand.Rand, n int) []byte {
	a := eu.NewAsm()
	for a.Len() < n {
		switch r.Intn(10) {
		case 0, 1, 2, 3:
			a.PushInt(uint64([]int{0, 1, 2, 31, 32, 33, 64, 96, 255, 256, 1024, 65535}[r.Intn(12)]))
		case 4:
			a.Push(randBytes(r, 1+r.Intn(32)))
		default:
			a.Op(definedOps[r.Intn(len(definedOps))])
		}
	}
	return a.Bytes()
}

var bigs = []*big.Int{
	big.NewInt(0), big.NewInt(1), big.NewInt(31), big.NewInt(32), big.NewInt(33), big.NewInt(1 << 16), big.NewInt(1 << 20), big.NewInt(100000),
	new(big.Int).SetUint64(1<<32 - 1), new(big.Int).SetUint64(1 << 32), new(big.Int).SetUint64(0x1FFFFFFFE0 - 1), new(big.Int).SetUint64(0x1FFFFFFFE0),
	new(big.Int).SetUint64(0x1FFFFFFFE0 + 1), new(big.Int).SetUint64(1<<63 - 1), new(big.Int).SetUint64(1 << 63),
	new(big.Int).SetUint64(^uint64(0) - 31), new(big.Int).SetUint64(^uint64(0) - 32), new(big.Int).SetUint64(^uint64(0)),
	new(big.Int).Lsh(big.NewInt(1), 64), new(big.Int).Lsh(big.NewInt(1), 255),
	new(big.Int).Sub(new(big.Int).Lsh(big.NewInt(1), 256), big.NewInt(1)),
}

func bigv(r *rand.Rand) []byte { return bigs[r.Intn(len(bigs))].Bytes() }

// memory: instructions with a memory operand at boundary offsets / sizes
func memoryBomb(r *rand.Rand) []byte {
	a := eu.NewAsm()
	for i := 0; i < 1+r.Intn(4); i++ {
		switch r.Intn(12) {
		case 0:
			a.Push(bigv(r)).Push(bigv(r)).Op(eu.MSTORE)
		case 1:
			a.Push(bigv(r)).Op(eu.MLOAD, eu.POP)
		case 2:
			a.Push(bigv(r)).Push(bigv(r)).Op(eu.MSTORE8)
		case 3:
			a.Push(bigv(r)).Push(bigv(r)).Push(bigv(r)).Op([]byte{eu.CALLDATACOPY, eu.CODECOPY, eu.MCOPY, eu.RETURNDATACOPY}[r.Intn(4)])
		case 4:
			a.Push(bigv(r)).Push(bigv(r)).Op(eu.SHA3, eu.POP)
		case 5:
			a.Push(bigv(r)).Push(bigv(r)).Op(byte(eu.LOG0))
		case 6:
			a.Push(bigv(r)).Push(bigv(r)).Push(bigv(r)).Op(eu.CREATE, eu.POP)
		case 7:
			a.Push(bigv(r)).Push(bigv(r)).Push(bigv(r)).Push(bigv(r)).Op(eu.CREATE2, eu.POP)
		case 8:
			a.Push(bigv(r)).Push(bigv(r)).Push(bigv(r)).Push(bigv(r)).PushInt(uint64(r.Intn(2))).PushInt(uint64(0x1000+r.Intn(4))).Push(bigv(r)).Op(eu.CALL, eu.POP)
		case 9:
			a.Push(bigv(r)).Push(bigv(r)).Push(bigv(r)).Push(bigv(r)).PushInt(uint64(0x1000 + r.Intn(4))).Op(eu.EXTCODECOPY)
		case 10:
			a.Push(bigv(r)).Push(bigv(r)).Op([]byte{eu.RETURN, eu.REVERT}[r.Intn(2)])
		default:
			// affordable growth, then MSIZE
			a.PushInt(uint64(r.Intn(200000))).Op(eu.MLOAD, eu.POP, eu.MSIZE, eu.POP)
		}
	}
	return a.Bytes()
}

// recursive: the contract calls itself with all its gas until gas or depth runs out
func recursive(r *rand.Rand, kind byte, twice bool) []byte {
	a := eu.NewAsm()
	a.Op(eu.PUSH0, eu.PUSH0, eu.PUSH0, eu.PUSH0)
	if kind == eu.CALL || kind == eu.CALLCODE {
		a.PushInt(uint64(r.Intn(2)))
	}
	a.Op(eu.ADDRESS, eu.GAS, kind, eu.POP)
	if twice { // and once more after returning (a binary call tree)
		a.Op(eu.PUSH0, eu.PUSH0, eu.PUSH0, eu.PUSH0)
		if kind == eu.CALL || kind == eu.CALLCODE {
			a.Op(eu.PUSH0)
		}
		a.Op(eu.ADDRESS, eu.GAS, kind, eu.POP)
	}
	return a.Bytes()
}

// creator: CREATE / CREATE2 of the call data as init code, possibly in a loop
func creator(r *rand.Rand) []byte {
	a := eu.NewAsm()
	a.Op(eu.CALLDATASIZE, eu.PUSH0, eu.PUSH0, eu.CALLDATACOPY)
	a.Label("top")
	if r.Intn(2) == 0 {
		a.Op(eu.CALLDATASIZE, eu.PUSH0).PushInt(uint64(r.Intn(2))).Op(eu.CREATE, eu.POP)
	} else {
		a.PushInt(uint64(r.Intn(3))).Op(eu.CALLDATASIZE, eu.PUSH0).PushInt(uint64(r.Intn(2))).Op(eu.CREATE2, eu.POP)
	}
	if r.Intn(3) == 0 {
		a.PushLabel("top").Op(eu.JUMP)
	}
	return a.Bytes()
}

// selfCreator: init code that copies itself and creates itself again (recursive creation)
func selfCreator() []byte {
	return eu.NewAsm().Op(eu.CODESIZE, eu.PUSH0, eu.PUSH0, eu.CODECOPY, eu.CODESIZE, eu.PUSH0, eu.PUSH0, eu.CREATE, eu.POP).Bytes()
}

// precompileCaller: CALL / STATICCALL / DELEGATECALL of a precompile with the call data as input
func precompileCaller(r *rand.Rand, addr int) []byte {
	a := eu.NewAsm()
	a.Op(eu.CALLDATASIZE, eu.PUSH0, eu.PUSH0, eu.CALLDATACOPY)
	a.PushInt(uint64(r.Intn(128))).PushInt(uint64(r.Intn(64)))
	size := []uint64{0, 1, 31, 32, 64, 96, 128, 192, 213, 256, 384, 512, 2000}[r.Intn(13)]
	a.PushInt(size).Op(eu.PUSH0)
	k := []byte{eu.CALL, eu.STATICCALL, eu.DELEGATECALL, eu.CALLCODE}[r.Intn(4)]
	if k == eu.CALL || k == eu.CALLCODE {
		a.PushInt(uint64(r.Intn(2)))
	}
	a.PushInt(uint64(addr))
	if r.Intn(2) == 0 {
		a.Op(eu.GAS)
	} else {
		a.PushInt(uint64(r.Intn(200000)))
	}
	a.Op(k, eu.POP, eu.RETURNDATASIZE, eu.POP)
	return a.Bytes()
}

// stackLoop: pushes until the operand stack limit
func stackLoop(r *rand.Rand) []byte {
	a := eu.NewAsm()
	if r.Intn(2) == 0 {
		a.Label("l").Op(eu.PUSH0).PushLabel("l").Op(eu.JUMP)
	} else {
		a.PushInt(7).Label("l").Op(eu.DUP1, eu.DUP1).PushLabel("l").Op(eu.JUMP)
	}
	return a.Bytes()
}

// staticWrite: a static call of the contract itself whose body attempts a state modification
func staticWrite(r *rand.Rand) []byte {
	a := eu.NewAsm()
	// call data empty: outer frame, STATICCALL self with one byte of call data
	a.Op(eu.CALLDATASIZE).PushLabel("inner").Op(eu.JUMPI)
	a.Op(eu.PUSH0, eu.PUSH0).PushInt(1).Op(eu.PUSH0, eu.ADDRESS, eu.GAS, eu.STATICCALL)
	a.Op(eu.PUSH0, eu.MSTORE).PushInt(32).Op(eu.PUSH0, eu.RETURN)
	a.Label("inner")
	switch r.Intn(8) {
	case 0:
		a.PushInt(1).PushInt(2).Op(eu.SSTORE)
	case 1:
		a.Op(eu.PUSH0, eu.PUSH0, byte(eu.LOG0))
	case 2:
		a.Op(eu.PUSH0, eu.PUSH0, eu.PUSH0, eu.CREATE)
	case 3:
		a.Op(eu.PUSH0, eu.SELFDESTRUCT)
	case 4:
		a.PushInt(1).PushInt(2).Op(eu.TSTORE)
	case 5:
		a.Op(eu.PUSH0, eu.PUSH0, eu.PUSH0, eu.PUSH0).PushInt(1).PushInt(0x1003).Op(eu.GAS, eu.CALL)
	case 6:
		a.Op(eu.PUSH0, eu.PUSH0, eu.PUSH0, eu.PUSH0, eu.CREATE2)
	default: // nested: a plain CALL of self (still static) that writes
		a.Op(eu.PUSH0, eu.PUSH0).PushInt(2).Op(eu.PUSH0, eu.PUSH0, eu.ADDRESS, eu.GAS, eu.CALL)
		a.PushInt(1).PushInt(2).Op(eu.SSTORE)
	}
	return a.Bytes()
}

func generate(r *rand.Rand, i int) job {
	j := job{gas: pickGas(r)}
	if r.Intn(5) == 0 {
		j.value = int64(r.Intn(3))
	}
	switch k := i % 20; {
	case k < 4:
		j.kind, j.code, j.data = "random", randBytes(r, 1+r.Intn(200)), randBytes(r, r.Intn(70))
	case k < 8:
		j.kind, j.code, j.data = "weighted", weighted(r, 10+r.Intn(150)), randBytes(r, r.Intn(70))
	case k == 8:
		c := weighted(r, 10+r.Intn(40))
		n := 2 + r.Intn(31)
		c = append(c, byte(eu.PUSH1+n-1))
		c = append(c, randBytes(r, r.Intn(n))...)
		j.kind, j.code = "truncpush", c
	case k == 9:
		c := weighted(r, r.Intn(30))
		c = append(c, []byte{0x0c, 0x1e, 0x21, 0x49, 0xa5, 0xef, 0xfb}[r.Intn(7)])
		j.kind, j.code = "undefined", append(c, weighted(r, 10)...)
	case k == 10:
		j.kind, j.code = "recursive", recursive(r, []byte{eu.CALL, eu.CALLCODE, eu.DELEGATECALL, eu.STATICCALL}[r.Intn(4)], r.Intn(3) == 0)
		if r.Intn(2) == 0 {
			j.gas = 10000000
		}
	case k == 11:
		j.kind, j.code = "creator", creator(r)
		switch r.Intn(4) {
		case 0:
			j.data = selfCreator()
		case 1:
			j.data = weighted(r, 30)
		default:
			j.data = randBytes(r, r.Intn(80))
		}
	case k == 12:
		j.kind, j.create = "create", true
		switch r.Intn(4) {
		case 0:
			j.code = selfCreator()
		case 1: // returns a large code image
			j.code = eu.NewAsm().PushInt(uint64([]int{0, 1, 24575, 24576, 24577, 50000}[r.Intn(6)])).Op(eu.PUSH0, eu.RETURN).Bytes()
		case 2:
			j.code = weighted(r, 40)
		default:
			j.code = randBytes(r, 1+r.Intn(100))
		}
	case k == 13 || k == 14:
		addr := 1 + r.Intn(18)
		j.kind, j.code = "precompile", precompileCaller(r, addr)
		j.data = randBytes(r, []int{0, 1, 31, 64, 96, 128, 192, 213, 256, 384, 600}[r.Intn(11)])
		if addr == 9 && r.Intn(2) == 0 && len(j.data) >= 213 { // blake2F: plausible round count and final flag
			j.data = j.data[:213]
			j.data[0], j.data[1], j.data[2] = 0, 0, 0
			j.data[212] = byte(r.Intn(3))
		}
		if addr == 5 && r.Intn(2) == 0 && len(j.data) >= 96 { // modexp: small declared lengths
			for i := 0; i < 96; i++ {
				j.data[i] = 0
			}
			j.data[31], j.data[63], j.data[95] = byte(r.Intn(40)), byte(r.Intn(40)), byte(r.Intn(40))
		}
	case k == 15 || k == 16:
		j.kind, j.code, j.data = "memory", memoryBomb(r), randBytes(r, r.Intn(40))
		if r.Intn(2) == 0 {
			j.gas = 10000000
		}
	case k == 17:
		j.kind, j.code, j.gas = "stackloop", stackLoop(r), 1000000
	case k == 18:
		j.kind, j.code = "staticwrite", staticWrite(r)
		if j.gas < 100000 {
			j.gas = 100000 + uint64(r.Intn(100000))
		}
	default:
		// gas limits around the static cost of the first instructions
		c := weighted(r, 12)
		j.kind, j.code, j.gas = "gasedge", c, uint64(r.Intn(60))
	}
	return j
}

// ------------------------------------------------------------ TLC scripts

type callDesc struct {
	Op     string `json:"op"`
	Gas    string `json:"gas"`
	Value  string `json:"value"`
	Target string `json:"target"`
}

type memCase struct {
	Op string `json:"op"`
	A  string `json:"a"`
	B  string `json:"b"`
	C  string `json:"c"`
}

type layoutCase struct {
	N       int   `json:"n"`
	Present int   `json:"present"`
	Mod     int   `json:"mod"`
	Code    []int `json:"code"`
}

type script struct {
	Calls   [][]callDesc `json:"calls"`
	Loops   [][]callDesc `json:"loops"`
	Mem     []memCase    `json:"mem"`
	Layouts []layoutCase `json:"layouts"`
}

// classValue: the operand classes of spec/EvmGasGen.tla
func classValue(c string) *big.Int {
	one := big.NewInt(1)
	p := func(k uint) *big.Int { return new(big.Int).Lsh(one, k) }
	switch c {
	case "0":
		return big.NewInt(0)
	case "1":
		return big.NewInt(1)
	case "32":
		return big.NewInt(32)
	case "31":
		return big.NewInt(31)
	case "33":
		return big.NewInt(33)
	case "127":
		return big.NewInt(127)
	case "128":
		return big.NewInt(128)
	case "160":
		return big.NewInt(160)
	case "2300":
		return big.NewInt(2300)
	case "50000":
		return big.NewInt(50000)
	case "p32":
		return p(32)
	case "p63m1":
		return new(big.Int).Sub(p(63), one)
	case "p63":
		return p(63)
	case "p64m1":
		return new(big.Int).Sub(p(64), one)
	case "p64":
		return p(64)
	case "p255":
		return p(255)
	case "p255p1":
		return new(big.Int).Add(p(255), one)
	case "p64p32":
		return new(big.Int).Add(p(64), big.NewInt(32))
	case "p64p5":
		return new(big.Int).Add(p(64), big.NewInt(5))
	case "p255p32":
		return new(big.Int).Add(p(255), big.NewInt(32))
	case "p255x":
		return new(big.Int).Add(p(255), big.NewInt(0x100000))
	case "max":
		return new(big.Int).Sub(p(256), one)
	}
	vutil.Fatalf("unknown operand class %q", c)
	return nil
}

// compileCalls: the call instructions of one TLC sequence, in the outermost frame; loops > 0 wraps them
// in a counted loop (the gas of the frame must go down along every step of every iteration)
func compileCalls(cs []callDesc, loops int) []byte {
	a := eu.NewAsm()
	if loops > 0 {
		a.PushInt(uint64(loops)).Label("again")
	}
	defer func() {}()
	for _, c := range cs {
		a.PushInt(0).PushInt(0).PushInt(0).PushInt(0)
		var op byte
		switch c.Op {
		case "call":
			op = eu.CALL
		case "callcode":
			op = eu.CALLCODE
		case "delegatecall":
			op = eu.DELEGATECALL
		case "staticcall":
			op = eu.STATICCALL
		default:
			vutil.Fatalf("unknown call kind %q", c.Op)
		}
		if op == eu.CALL || op == eu.CALLCODE {
			a.Push(classValue(c.Value).Bytes())
		}
		switch c.Target {
		case "empty":
			a.PushInt(0x1009)
		case "returner":
			a.PushInt(0x1003)
		case "reverter":
			a.PushInt(0x1002)
		default:
			vutil.Fatalf("unknown target %q", c.Target)
		}
		if c.Gas == "all" {
			a.Op(eu.GAS)
		} else {
			a.Push(classValue(c.Gas).Bytes())
		}
		a.Op(op, eu.POP)
	}
	if loops > 0 {
		a.PushInt(1).Op(eu.SWAP1, eu.SUB, eu.DUP1).PushLabel("again").Op(eu.JUMPI)
	}
	a.Op(eu.STOP)
	return a.Bytes()
}

// compileMem: one instruction with a memory operand of the given classes
func compileMem(m memCase) []byte {
	a := eu.NewAsm()
	x, y, z := classValue(m.A).Bytes(), classValue(m.B).Bytes(), classValue(m.C).Bytes()
	switch m.Op {
	case "mcopy":
		a.Push(z).Push(y).Push(x).Op(eu.MCOPY)
	case "calldatacopy":
		a.Push(z).Push(y).Push(x).Op(eu.CALLDATACOPY)
	case "codecopy":
		a.Push(z).Push(y).Push(x).Op(eu.CODECOPY)
	case "returndatacopy":
		a.Push(z).Push(y).Push(x).Op(eu.RETURNDATACOPY)
	case "mstore":
		a.PushInt(1).Push(x).Op(eu.MSTORE)
	case "mstore8":
		a.PushInt(1).Push(x).Op(eu.MSTORE8)
	case "mload":
		a.Push(x).Op(eu.MLOAD, eu.POP)
	case "sha3":
		a.Push(z).Push(x).Op(eu.SHA3, eu.POP)
	case "log0":
		a.Push(z).Push(x).Op(byte(eu.LOG0))
	case "return":
		a.Push(z).Push(x).Op(eu.RETURN)
	case "revert":
		a.Push(z).Push(x).Op(eu.REVERT)
	case "create":
		a.Push(z).Push(x).PushInt(0).Op(eu.CREATE, eu.POP)
	case "extcodecopy":
		a.Push(z).PushInt(0).Push(x).PushInt(0x1003).Op(eu.EXTCODECOPY)
	case "auth":
		// 32 bytes of memory, then AUTH(authority, offset, length)
		a.PushInt(1).PushInt(0).Op(eu.MSTORE)
		a.Push(z).Push(x).PushInt(0x1003).Op(0xf6, eu.POP)
	case "callargs":
		a.Push(z).Push(x).Push(z).Push(x).PushInt(0).PushInt(0x1003).PushInt(1000).Op(eu.CALL, eu.POP)
	default:
		vutil.Fatalf("unknown memory case %q", m.Op)
	}
	a.Op(eu.MSIZE, eu.POP)
	return a.Bytes()
}

func runScript(path string) {
	raw, err := os.ReadFile(path)
	if err != nil {
		vutil.Fatalf("read script: %v", err)
	}
	var sc script
	if err := json.Unmarshal(raw, &sc); err != nil {
		vutil.Fatalf("parse script: %v", err)
	}
	for _, cs := range sc.Calls {
		execute(job{kind: "tlc-calls", code: compileCalls(cs, 0), gas: 200000})
	}
	for _, cs := range sc.Loops {
		execute(job{kind: "tlc-loop", code: compileCalls(cs, 6), gas: 3000000})
	}
	for i, l := range sc.Layouts {
		code := make([]byte, len(l.Code))
		for k, x := range l.Code {
			code[k] = byte(x)
		}
		execute(job{kind: "tlc-layout", code: code, gas: 100000})
		if i%4 == 0 { // the same layout as init code of a creation
			execute(job{kind: "tlc-layout-create", code: code, gas: 200000, create: true})
		}
	}
	for _, m := range sc.Mem {
		curCase = map[string]interface{}{"op": m.Op, "a": m.A, "b": m.B, "c": m.C}
		execute(job{kind: "tlc-mem", code: compileMem(m), data: []byte{1, 2, 3, 4, 5}, gas: 1000000})
		curCase = noCase
	}
}

// ------------------------------------------------------ 2^64 boundary cases

type wrapCase struct {
	Op      string `json:"op"`
	Pos     string `json:"pos"`
	Len     []int  `json:"len"`
	Off     []int  `json:"off"`
	Above   bool   `json:"above"`
	Wrapped []int  `json:"wrapped"`
}

func beBytes(a []int) []byte {
	b := make([]byte, len(a))
	for i, x := range a {
		b[i] = byte(x)
	}
	return b
}

func compileWrap(c wrapCase) []byte {
	a := eu.NewAsm()
	l, o := beBytes(c.Len), beBytes(c.Off)
	switch c.Op {
	case "calldatacopy":
		a.Push(l).PushInt(0).Push(o).Op(eu.CALLDATACOPY)
	case "codecopy":
		a.Push(l).PushInt(0).Push(o).Op(eu.CODECOPY)
	case "mcopy":
		a.Push(l).PushInt(0).Push(o).Op(eu.MCOPY)
	case "sha3":
		a.Push(l).Push(o).Op(eu.SHA3, eu.POP)
	case "log0":
		a.Push(l).Push(o).Op(byte(eu.LOG0))
	case "log2":
		a.PushInt(1).PushInt(2).Push(l).Push(o).Op(byte(eu.LOG0 + 2))
	case "create2":
		a.PushInt(7).Push(l).Push(o).PushInt(0).Op(eu.CREATE2, eu.POP)
	default:
		vutil.Fatalf("unknown wrap case %q", c.Op)
	}
	a.Op(eu.MSIZE, eu.POP, eu.STOP)
	return a.Bytes()
}

// runWrapCases runs the cases from index skip on; every case is announced with a line that is written
// through to the file before it executes and closed with a second line afterwards, so that a process
// death (which is what a wrapped cost leads to: an allocation of ~96 GiB) leaves the announcement alone.
// The caller runs this under an address-space limit and restarts it behind the case that died.
func runWrapCases(path, out string, skip int) {
	raw, err := os.ReadFile(path)
	if err != nil {
		vutil.Fatalf("read wrap cases: %v", err)
	}
	var cs []wrapCase
	if err := json.Unmarshal(raw, &cs); err != nil {
		vutil.Fatalf("parse wrap cases: %v", err)
	}
	f, err := os.OpenFile(out, os.O_APPEND|os.O_CREATE|os.O_WRONLY|os.O_SYNC, 0644)
	if err != nil {
		vutil.Fatalf("open %s: %v", out, err)
	}
	emit := func(ev map[string]interface{}) {
		b, _ := json.Marshal(ev)
		f.Write(append(b, '\n'))
	}
	tr = vutil.NewTrace(os.DevNull)
	rec = eu.NewRecorder(tr, eu.Options{Gas: true, MaxSteps: 1, HardSteps: hardSteps})
	rec.Install()
	for i := skip; i < len(cs); i++ {
		c := cs[i]
		emit(map[string]interface{}{"event": "WrapBegin", "index": i, "op": c.Op, "pos": c.Pos, "above": c.Above, "m": common.GasMagnification,
			"p026": common.IsProposal026()})
		st := eu.NewState()
		self := eu.Addr(1)
		st.AddBalance(eu.Origin, big.NewInt(1000000000))
		st.CreateAccount(self)
		st.SetCode(self, compileWrap(c))
		evm := eu.NewEVM(st, height, 3000000)
		rec.BeginRun(i + 1)
		rec.Cancel = evm.Cancel
		var cerr error
		panik := ""
		func() {
			defer func() {
				if p := recover(); p != nil {
					panik = fmt.Sprintf("%v", p)
				}
			}()
			_, _, _, cerr = evm.Call(vm.AccountRef(eu.Origin), self, nil, 3000000, big.NewInt(0))
		}()
		emit(map[string]interface{}{"event": "WrapEnd", "index": i, "op": c.Op, "failed": cerr != nil, "err": eu.ErrClass(cerr),
			"panic": panik != "", "msize": rec.MaxMem, "steps": rec.Steps})
	}
	emit(map[string]interface{}{"event": "WrapDone", "cases": len(cs)})
	f.Close()
}

func main() {
	out := flag.String("out", "trace.ndjson", "ndjson trace")
	wrapCases := flag.String("wrapcases", "", "cases around the 2^64 boundary of the magnified dynamic gas (json); appends to --out")
	wrapSkip := flag.Int("skip", 0, "first wrap case to run")
	probe := flag.Bool("probe-copier-wrap", false, "one-off probe (run it under an address-space limit): CALLDATACOPY whose Proposal026 cost wraps around 2^64")
	statePath := flag.String("statescript", "", "TLC-generated cases of the state-access gas extension (json); runs only these")
	scriptPath := flag.String("script", "", "TLC-generated call sequences and memory operand cases (json)")
	scratch := flag.String("scratch", "", "scratch directory for the node's stores")
	n := flag.Int("runs", 100, "generated runs")
	salt := flag.Int64("salt", 0, "seed salt")
	config := flag.String("config", "a", "a: dev jump table with P026 off; b: P026 on (gas x30); c: P014/P022 off")
	jt := flag.String("jumptable", "", "write the jump table of this configuration (json)")
	deep := flag.Int("deep", 0, "recursion runs with enough gas to reach the call depth limit")
	pre := flag.Int("precompiles", 0, "direct RunPrecompiledContract calls per precompile")
	maxSteps := flag.Int("maxsteps", 300, "logged steps per run")
	flag.Parse()
	eu.Boot(*scratch)
	switch *config {
	case "b":
		common.LocalChainConfig.Proposal026Block = 0
	case "c":
		common.LocalChainConfig.Proposal014Block = 1000000000
		common.LocalChainConfig.Proposal022Block = 1000000000
	}
	common.SetBlockHeight(height)
	table := vm.VerifJumpTable(height)
	for _, o := range table {
		definedOps = append(definedOps, byte(o.Op))
	}
	if *jt != "" {
		ops := make([]map[string]interface{}, 0)
		for _, o := range table {
			if o.ConstantGas >= 1<<31 {
				vutil.Fatalf("constant gas of %s does not fit", o.Name)
			}
			ops = append(ops, map[string]interface{}{"op": o.Op, "name": o.Name, "constantGas": int(o.ConstantGas),
				"minStack": o.MinStack, "maxStack": o.MaxStack, "dynamic": o.HasDynamic, "memory": o.HasMemSize,
				"halts": o.Halts, "jumps": o.Jumps, "writes": o.Writes, "reverts": o.Reverts, "returns": o.Returns})
		}
		b, _ := json.Marshal(map[string]interface{}{"config": *config, "stackLimit": vm.VerifStackLimit(),
			"depthLimit": vm.VerifCallDepthLimit(), "gasMagnification": common.GasMagnification,
			"p026": common.IsProposal026(), "ops": ops})
		if err := os.WriteFile(*jt, b, 0644); err != nil {
			vutil.Fatalf("write jumptable: %v", err)
		}
	}
	if *statePath != "" {
		m := 1
		if common.IsProposal026() {
			m = common.GasMagnification
		}
		st := vutil.NewTrace(*out)
		runStateScript(*statePath, st, m, common.IsProposal015())
		st.Close()
		fmt.Printf("c11state: runs=%d events=%d\n", stats["state_runs"], st.N)
		return
	}
	if *wrapCases != "" {
		runWrapCases(*wrapCases, *out, *wrapSkip)
		return
	}
	if *probe {
		// memory 3239466407 words, copy 3160320941 words: ((3w + w*w/512)*30 + 3*copy)*30 = 2^64 + 74
		code := eu.NewAsm().Push(new(big.Int).SetUint64(0x178bd575a0).Bytes()).PushInt(0).Push(new(big.Int).SetUint64(0x96f53f40).Bytes()).
			Op(eu.CALLDATACOPY, eu.STOP).Bytes()
		tr = vutil.NewTrace(*out)
		rec = eu.NewRecorder(tr, eu.Options{Gas: true, Frames: true})
		rec.Install()
		execute(job{kind: "probe", code: code, gas: 1000000})
		tr.Close()
		fmt.Println("probe finished without a crash")
		return
	}
	tr = vutil.NewTrace(*out)
	rec = eu.NewRecorder(tr, eu.Options{Gas: true, Frames: true, MaxSteps: *maxSteps, MaxFrames: 2200, MaxFaults: 1200, HardSteps: hardSteps})
	rec.Install()
	r := vutil.Rng(*salt)
	if *scriptPath != "" {
		runScript(*scriptPath)
	}
	for i := 0; i < *n; i++ {
		execute(generate(r, i))
	}
	for i := 0; i < *deep; i++ {
		k := []byte{eu.CALL, eu.CALLCODE, eu.DELEGATECALL, eu.STATICCALL}[i%4]
		execute(job{kind: "deep", code: recursive(r, k, false), gas: 1 << 44})
	}
	if *pre > 0 {
		// modexp with base length 1, exponent length 2^64-1, modulus length 0 and all the gas a uint64 can hold
		in := make([]byte, 97)
		in[31] = 1
		for i := 56; i < 64; i++ {
			in[i] = 0xff
		}
		in[96] = 7
		precompile(r, 5, in, ^uint64(0))
	}
	for a := 1; a <= 18; a++ {
		for i := 0; i < *pre; i++ {
			in := randBytes(r, []int{0, 1, 32, 64, 96, 128, 160, 192, 212, 213, 214, 256, 384, 1000}[r.Intn(14)])
			if r.Intn(3) == 0 {
				for k := range in {
					if r.Intn(2) == 0 {
						in[k] = 0
					}
				}
			}
			precompile(r, a, in, []uint64{0, 100, 3000, 100000, 10000000}[r.Intn(5)])
		}
	}
	tr.Close()
	line := func(m map[string]int) string {
		s := make([]string, 0)
		for k, v := range m {
			s = append(s, fmt.Sprintf("%s:%d", strings.ReplaceAll(k, " ", "_"), v))
		}
		sort.Strings(s)
		return strings.Join(s, " ")
	}
	fmt.Printf("c11: runs=%d steps=%d frames=%d events=%d precompile_calls=%d maxdepth=%d\n", stats["runs"], stats["steps"],
		stats["frames"], tr.N, stats["precompile_calls"], rec.MaxDepth)
	fmt.Printf("KINDS %s\n", line(kinds))
	fmt.Printf("ENDS %s\n", line(ends))
	fmt.Printf("FAULTS %s\n", line(rec.FaultCount))
}
