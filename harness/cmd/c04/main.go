// c04 replays TLC-generated histories of spec/AccountJournal.tla (mutators,
// Snapshot, RevertToSnapshot, IntermediateRoot, Prepare) on a real
// *account.AccountDB and records, after every call, the full observable
// projection of the real state as one ndjson event for
// spec/AccountJournalTrace.tla.
//
// Observation never perturbs the history: the projection after call i is taken
// on a clone, a fresh AccountDB opened on the committed start root on which the
// calls 1..i are re-executed (getters of this package cache storage values and
// that cache is consulted by accountObject.empty()).
//
// Root oracle (metamorphic, on the real code only): the real root after the
// whole history is compared with the real root of a twin AccountDB on which only
// the surviving calls (computed by the specification) were executed.  The driver
// logs both roots; the monitor compares them.
package main

import (
	"bytes"
	"encoding/hex"
	"encoding/json"
	"flag"
	"fmt"
	"math/big"
	"os"
	"path/filepath"
	"sort"

	"com.tuntun.rangers/node/src/common"
	"com.tuntun.rangers/node/src/middleware/db"
	"com.tuntun.rangers/node/src/middleware/types"
	"com.tuntun.rangers/node/src/storage/account"
	"com.tuntun.rangers/node/src/storage/trie"
	"golang.org/x/crypto/sha3"
	"verif/harness/internal/trieutil"
	"verif/harness/internal/vutil"
)

const (
	nAcct   = 2
	nKeys   = 2
	unknown = 99
)

var (
	token   = common.Address{} // balances live in the storage of the bound token contract: the zero address without a binding
	addrs   = [nAcct + 1]common.Address{}
	skeys   = [nKeys + 1][]byte{nil, []byte("slot-one"), []byte("slot-two-with-a-longer-name-than-32-bytes")}
	svals   = [3][]byte{nil, []byte("v1"), bytes.Repeat([]byte{0xab}, 40)}
	codes   = [3][]byte{nil, {0x60, 0x01, 0x60, 0x02, 0x01}, bytes.Repeat([]byte{0x5b}, 70)}
	thashes = [3]common.Hash{{}, common.BytesToHash([]byte("tx-one")), common.BytesToHash([]byte("tx-two"))}
	bhash   = common.BytesToHash([]byte("block"))
	tkey    = common.BytesToHash([]byte("transient-key"))
	aslot   = common.BytesToHash([]byte("access-slot"))
	sskey   = common.BytesToHash([]byte("evm-word-slot"))
	ftName  = "verif-ft" // a fungible token other than the native one: own-storage slot until a binding is registered
	ftBound = common.HexToAddress("0x3333333333333333333333333333333333333333")

	disk     *db.MemDatabase
	adb      account.AccountDatabase
	startSet [4]common.Hash
)

func initUniverse() {
	addrs[1] = common.HexToAddress("0x1111111111111111111111111111111111111111")
	addrs[2] = common.HexToAddress("0x1111111111111111111111111111111111111122")
}

func valID(v []byte) int {
	if len(v) == 0 {
		return 0
	}
	for i := 1; i < len(svals); i++ {
		if bytes.Equal(v, svals[i]) {
			return i
		}
	}
	return unknown
}

func codeID(c []byte) int {
	if len(c) == 0 {
		return 0
	}
	for i := 1; i < len(codes); i++ {
		if bytes.Equal(c, codes[i]) {
			return i
		}
	}
	return unknown
}

func codeHashID(h common.Hash) int {
	switch {
	case h == (common.Hash{}):
		return 0 // no such account
	case h == sha3.Sum256(nil), bytes.Equal(h[:], trieutil.Keccak(nil)):
		return 9 // "hash of the empty code" (the package uses SHA3-256 of the empty string for it)
	}
	for i := 1; i < len(codes); i++ {
		if bytes.Equal(h[:], trieutil.Keccak(codes[i])) {
			return i
		}
	}
	return unknown
}

func hashID(h common.Hash) int {
	if h == (common.Hash{}) {
		return 0
	}
	if h == common.BigToHash(big.NewInt(1)) {
		return 1
	}
	return unknown
}

// buildStarts commits the three start states of the specification (Start(s)).
func buildStarts() {
	disk, _ = db.NewMemDatabase()
	adb = account.NewDatabase(disk)
	for s := 1; s <= 3; s++ {
		st, err := account.NewAccountDB(common.Hash{}, adb)
		if err != nil {
			vutil.Fatalf("NewAccountDB: %v", err)
		}
		st.SetNonce(token, 1) // the token contract account exists in every start state
		switch s {
		case 2:
			st.SetNonce(addrs[1], 1)
			st.SetData(addrs[1], skeys[1], svals[1])
			st.SetBalance(addrs[1], big.NewInt(5))
		case 3:
			st.SetNonce(addrs[1], 3)
			st.SetCode(addrs[1], codes[1])
			st.SetData(addrs[1], skeys[1], svals[2])
			st.SetData(addrs[1], skeys[2], svals[2])
			st.SetBalance(addrs[1], big.NewInt(9))
			st.SetData(addrs[2], skeys[1], svals[1])
			st.SetFT(addrs[1], ftName, big.NewInt(4))
			st.SetState(addrs[1], sskey, common.BigToHash(big.NewInt(1)))
		}
		root, err := st.Commit(false)
		if err != nil {
			vutil.Fatalf("commit start state: %v", err)
		}
		if err := adb.TrieDB().Commit(root, false); err != nil {
			vutil.Fatalf("flush start state: %v", err)
		}
		startSet[s] = root
	}
}

type call struct {
	Op      string
	A, X, Y int
}

func (c call) MarshalJSON() ([]byte, error) {
	return json.Marshal([]interface{}{c.Op, c.A, c.X, c.Y})
}

func (c *call) UnmarshalJSON(b []byte) error {
	var raw []interface{}
	if err := json.Unmarshal(b, &raw); err != nil {
		return err
	}
	if len(raw) != 4 {
		return fmt.Errorf("call %s", b)
	}
	c.Op = raw[0].(string)
	c.A, c.X, c.Y = int(raw[1].(float64)), int(raw[2].(float64)), int(raw[3].(float64))
	return nil
}

type history struct {
	Start int    `json:"start"`
	Ops   []call `json:"ops"`
	Surv  []call `json:"surv"`
}

type subject struct {
	s     *account.AccountDB
	snaps map[int]int // specification snapshot id -> id returned by the real Snapshot()
}

func open(start int) *subject {
	s, err := account.NewAccountDB(startSet[start], adb)
	if err != nil {
		vutil.Fatalf("open start state %d: %v", start, err)
	}
	s.Prepare(thashes[1], bhash, 0)
	return &subject{s: s, snaps: map[int]int{}}
}

type result struct {
	id       int    // Snapshot: the real id; Revert: the real id reverted to
	res      string // IntermediateRoot: root
	panicked string
}

func (u *subject) apply(c call) (r result) {
	defer func() {
		if p := recover(); p != nil {
			r.panicked = fmt.Sprint(p)
		}
	}()
	s := u.s
	switch c.Op {
	case "SN":
		s.SetNonce(addrs[c.A], uint64(c.X))
	case "IN":
		s.IncreaseNonce(addrs[c.A])
	case "SD":
		s.SetData(addrs[c.A], skeys[c.X], svals[c.Y])
	case "SC":
		s.SetCode(addrs[c.A], codes[c.X])
	case "AB":
		s.AddBalance(addrs[c.A], big.NewInt(int64(c.X)))
	case "SB":
		s.SubBalance(addrs[c.A], big.NewInt(int64(c.X)))
	case "TB":
		s.SetBalance(addrs[c.A], big.NewInt(int64(c.X)))
	case "SS":
		s.SetState(addrs[c.A], sskey, common.BigToHash(big.NewInt(int64(c.X))))
	case "GC": // a query made on the live object inside the history
		s.GetCommittedState(addrs[c.A], sskey)
	case "LS": // X successful inner frames: each takes a snapshot and writes, none is reverted
		for i := 0; i < c.X; i++ {
			s.Snapshot()
			s.IncreaseNonce(addrs[c.A])
		}
	case "TR":
		s.Transfer(addrs[c.A], addrs[c.Y], big.NewInt(int64(c.X)))
	case "AF":
		s.AddFT(addrs[c.A], ftName, big.NewInt(int64(c.X)))
	case "SF":
		s.SubFT(addrs[c.A], ftName, big.NewInt(int64(c.X)))
	case "TF":
		s.SetFT(addrs[c.A], ftName, big.NewInt(int64(c.X)))
	case "BI":
		s.AddERC20Binding(ftName, ftBound, 5, 18)
	case "CA":
		s.CreateAccount(addrs[c.A])
	case "SU":
		s.Suicide(addrs[c.A])
	case "AR":
		s.AddRefund(uint64(c.X))
	case "SR":
		s.SubRefund(uint64(c.X))
	case "AL":
		s.AddLog(&types.Log{Address: addrs[1], Data: []byte{1}})
	case "AA":
		s.AddAddressToAccessList(addrs[c.A])
	case "AS":
		s.AddSlotToAccessList(addrs[c.A], aslot)
	case "TS":
		s.SetTransientState(addrs[c.A], tkey, common.BigToHash(big.NewInt(int64(c.X))))
	case "SNAP":
		r.id = s.Snapshot()
		u.snaps[c.A] = r.id
	case "REV":
		id, ok := u.snaps[c.A]
		if !ok {
			vutil.Fatalf("history reverts to snapshot %d that was never taken", c.A)
		}
		r.id = id
		s.RevertToSnapshot(id)
	case "FIN":
		h := s.IntermediateRoot(true)
		r.res = trieutil.Hex(h[:])
	case "PRE":
		s.Prepare(thashes[c.A], bhash, c.A)
	default:
		vutil.Fatalf("unknown op %q", c.Op)
	}
	return
}

func replay(start int, ops []call) *subject {
	u := open(start)
	for _, c := range ops {
		u.apply(c)
	}
	return u
}

// project reads the whole observable state through the exported queries.
func project(u *subject) (st map[string]interface{}) {
	blank := func() map[string]interface{} {
		return map[string]interface{}{"ex": false, "empty": false, "nonce": -1, "code": unknown, "csize": -1, "chash": unknown,
			"st": make([]int, nKeys), "sui": false, "bal": "?", "ss": unknown, "ssC": unknown, "canT": false, "ft": "?"}
	}
	st = map[string]interface{}{"panic": "", "acct": []interface{}{blank(), blank()}, "refund": -1, "logs": []int{0, 0}, "logIdx": []int{},
		"accA": []bool{false, false}, "accS": []bool{false, false}, "tr": []int{unknown, unknown}, "bind": []interface{}{false, unknown}, "bindEx": false}
	defer func() {
		if p := recover(); p != nil {
			st["panic"] = fmt.Sprint(p)
		}
	}()
	s := u.s
	accts := make([]interface{}, 0, nAcct)
	for a := 1; a <= nAcct; a++ {
		ad := addrs[a]
		slots := make([]int, nKeys)
		for k := 1; k <= nKeys; k++ {
			slots[k-1] = valID(s.GetData(ad, skeys[k]))
		}
		code := s.GetCode(ad)
		accts = append(accts, map[string]interface{}{
			"ex":    s.Exist(ad),
			"empty": s.Empty(ad),
			"nonce": int(s.GetNonce(ad)),
			"code":  codeID(code),
			"csize": s.GetCodeSize(ad),
			"chash": codeHashID(s.GetCodeHash(ad)),
			"st":    slots,
			"sui":   s.HasSuicided(ad),
			"bal":   s.GetBalance(ad).String(),
			"ss":    hashID(s.GetState(ad, sskey)),
			"ssC":   hashID(s.GetCommittedState(ad, sskey)),
			"canT":  s.CanTransfer(ad, big.NewInt(1)),
			"ft":    "",
		})
	}
	st["acct"] = accts

	st["refund"] = int(s.GetRefund())
	nlogs := make([]int, 2)
	idx := make([]int, 0)
	for t := 1; t <= 2; t++ {
		ls := s.GetLogs(thashes[t])
		nlogs[t-1] = len(ls)
		for _, l := range ls {
			idx = append(idx, int(l.Index))
		}
	}
	st["logs"] = nlogs
	st["logIdx"] = idx
	accA, accS, tr := make([]bool, nAcct), make([]bool, nAcct), make([]int, nAcct)
	for a := 1; a <= nAcct; a++ {
		accA[a-1] = s.AddressInAccessList(addrs[a])
		_, accS[a-1] = s.SlotInAccessList(addrs[a], aslot)
		tr[a-1] = hashID(s.GetTransientState(addrs[a], tkey))
	}
	st["accA"], st["accS"], st["tr"] = accA, accS, tr
	// token-level queries last: GetFT of an unbound name creates the holder's account object
	found, contract, _, _ := s.GetERC20Binding(ftName)
	cid := 0
	if found {
		cid = unknown
		if contract == ftBound {
			cid = 1
		}
	}
	st["bind"] = []interface{}{found, cid}
	st["bindEx"] = s.Exist(common.GenerateERC20Binding(ftName))
	for a := 1; a <= nAcct; a++ {
		// GetFT dereferences a nil object when the holder was deleted by Finalise earlier on this
		// AccountDB (getOrNewAccountObject returns nil for deleted objects): that is what the query
		// "answers" then, at snapshot time and after the revert alike
		accts[a-1].(map[string]interface{})["ft"] = func() (v string) {
			defer func() {
				if recover() != nil {
					v = "panic"
				}
			}()
			return s.GetFT(addrs[a], ftName).String()
		}()
	}
	return st
}

// roots finishes a (clone of a) history the way the chain does: IntermediateRoot(true), Commit(true).
func roots(u *subject) (ir, cr string, croot common.Hash, panicked string) {
	defer func() {
		if p := recover(); p != nil {
			panicked = fmt.Sprint(p)
		}
	}()
	h := u.s.IntermediateRoot(true)
	ir = trieutil.Hex(h[:])
	c, err := u.s.Commit(true)
	if err != nil {
		cr = "error: " + err.Error()
		return
	}
	return ir, trieutil.Hex(c[:]), c, ""
}

// leaves lists the account-trie leaves under a committed root (classification of a root difference).
func leaves(root common.Hash) map[string]string {
	out := map[string]string{}
	defer func() { recover() }()
	t, err := trie.NewTrie(root, adb.TrieDB())
	if err != nil {
		return out
	}
	it := trie.NewIterator(t.NodeIterator(nil))
	for it.Next() {
		out[trieutil.Hex(it.Key)] = trieutil.Hex(it.Value)
	}
	return out
}

func leafDiff(a, b common.Hash) []interface{} {
	la, lb := leaves(a), leaves(b)
	keys := map[string]bool{}
	for k := range la {
		keys[k] = true
	}
	for k := range lb {
		keys[k] = true
	}
	ks := make([]string, 0)
	for k := range keys {
		if la[k] != lb[k] {
			ks = append(ks, k)
		}
	}
	sort.Strings(ks)
	out := make([]interface{}, 0)
	for _, k := range ks {
		out = append(out, map[string]string{"account": k, "real": la[k], "twin": lb[k], "realKind": leafKind(la[k]), "twinKind": leafKind(lb[k])})
	}
	return out
}

// leafKind describes an account-trie leaf {Nonce, Root, code hash} as it is stored:
// "absent", "empty" (nonce 0, no code, empty storage trie), "storageOnly" (nonce 0, no code,
// non-empty storage trie) or "other".
func leafKind(hexLeaf string) string {
	if hexLeaf == "" {
		return "absent"
	}
	blob, _ := hex.DecodeString(hexLeaf)
	items, err := trieutil.DecodeList(blob)
	if err != nil || len(items) != 3 {
		return "other"
	}
	nonce, e1 := trieutil.DecodeStr(items[0])
	root, e2 := trieutil.DecodeStr(items[1])
	chash, e3 := trieutil.DecodeStr(items[2])
	if e1 != nil || e2 != nil || e3 != nil {
		return "other"
	}
	e := sha3.Sum256(nil)
	if len(nonce) != 0 || !(bytes.Equal(chash, e[:]) || bytes.Equal(chash, trieutil.Keccak(nil))) {
		return "other"
	}
	if bytes.Equal(root, trieutil.EmptyRoot) {
		return "empty"
	}
	return "storageOnly"
}

func main() {
	out := flag.String("out", "trace.ndjson", "trace file")
	script := flag.String("script", "", "JSON file: list of histories generated by TLC")
	scratch := flag.String("scratch", "", "scratch directory (cwd of the process: the node's loggers write there)")
	corrupt := flag.String("corrupt", "", "sensitivity exercise: corrupt this logged field of every 5th Revert event (nonce|root)")
	flag.Parse()
	if *scratch == "" {
		vutil.Fatalf("--scratch required")
	}
	if err := trieutil.SelfTest(); err != nil {
		vutil.Fatalf("self-test of the independent primitives failed: %v", err)
	}
	outAbs, _ := filepath.Abs(*out)
	if err := os.MkdirAll(*scratch, 0755); err != nil {
		vutil.Fatalf("mkdir: %v", err)
	}
	b, err := os.ReadFile(*script)
	if err != nil {
		vutil.Fatalf("read script: %v", err)
	}
	var histories []history
	if err := json.Unmarshal(b, &histories); err != nil {
		vutil.Fatalf("parse script: %v", err)
	}
	if err := os.Chdir(*scratch); err != nil {
		vutil.Fatalf("chdir: %v", err)
	}
	common.Init(0, "x.ini", "dev")
	account.Init()
	initUniverse()
	buildStarts()

	tr := vutil.NewTrace(outAbs)
	calls, nrev := 0, 0
	// emitCut: the root oracle (metamorphic, real code on both sides): the first nOps calls of the
	// history on one AccountDB against the first nSurv surviving calls on a twin, both finished
	// with IntermediateRoot(true) and Commit(true).
	emitCut := func(event string, h history, nOps, nSurv int) {
		// what the queries answer after the calls / after the surviving calls alone (each on its own clone)
		stReal, stTwin := project(replay(h.Start, h.Ops[:nOps])), project(replay(h.Start, h.Surv[:nSurv]))
		ir, cr, croot, p1 := roots(replay(h.Start, h.Ops[:nOps]))
		tir, tcr, tcroot, p2 := roots(replay(h.Start, h.Surv[:nSurv]))
		if *corrupt == "root" && event == "Final" && nrev%5 == 0 {
			tir = "00" + tir[2:]
		}
		ev := map[string]interface{}{"event": event, "a": 0, "x": nOps, "y": nSurv, "id": 0, "res": "",
			"panicked": p1 + p2, "rootReal": ir, "rootTwin": tir, "commitReal": cr, "commitTwin": tcr, "state": map[string]interface{}{},
			"stateReal": stReal, "stateTwin": stTwin}
		ev["leafDiff"] = []interface{}{}
		if ir != tir || cr != tcr {
			ev["leafDiff"] = leafDiff(croot, tcroot)
			ev["surv"] = h.Surv[:nSurv]
		}
		tr.Emit(ev)
	}
	for _, h := range histories {
		tr.Emit(map[string]interface{}{"event": "Reset", "a": h.Start, "x": 0, "y": 0, "id": 0, "res": "", "panicked": "",
			"state": project(open(h.Start))})
		nfin := 0
		for i, c := range h.Ops {
			u := replay(h.Start, h.Ops[:i])
			r := u.apply(c)
			calls += i + 1
			ev := map[string]interface{}{"event": c.Op, "a": c.A, "x": c.X, "y": c.Y, "id": r.id, "res": r.res,
				"panicked": r.panicked, "state": project(u)}
			if c.Op == "REV" {
				nrev++
				if *corrupt == "nonce" && nrev%5 == 0 {
					a0 := ev["state"].(map[string]interface{})["acct"].([]interface{})[0].(map[string]interface{})
					a0["nonce"] = a0["nonce"].(int) + 1
				}
			}
			tr.Emit(ev)
			if c.Op == "FIN" {
				// the root oracle at every transaction end inside the history: the calls up to
				// and including this FIN against the surviving calls up to the same FIN
				nfin++
				k, seen := 0, 0
				for k < len(h.Surv) && seen < nfin {
					if h.Surv[k].Op == "FIN" {
						seen++
					}
					k++
				}
				emitCut("Cut", h, i, k-1)
			}
		}
		// the root oracle at the end of the history
		emitCut("Final", h, len(h.Ops), len(h.Surv))
	}
	tr.Close()
	fmt.Printf("c04: histories=%d calls=%d events=%d reverts=%d\n", len(histories), calls, tr.N, nrev)
}
