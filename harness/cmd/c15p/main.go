// c15p replays TLC-generated sequences of handler calls of spec/SignParty.tla
// on the real consensus/logical Processor (hook H3): cast messages of competing
// proposals for one slot, verify messages before and after the proposal, the
// node's own share coming back, re-deliveries, shares over another block, and
// the passage of the party time-out.  Everything around the Processor is the
// node's real code: a chain whose genesis holds a proposer and a verify group
// whose keys the harness owns (the group comes from the node's own DKG), the
// real group accessor, joined-group storage, miner reader, VRF and block
// verification.  The chain the parties finalise into is a recording wrapper of
// the real chain (blocks handed to AddBlockOnChain are recorded, not added, so
// that every sequence starts from the same chain).
//
// After every call the driver waits for the processor to become quiescent (the
// party re-key and the replay goroutines it starts) and logs the projection of
// the party table, the finished-party cache, the buffers, what was sent and
// what was handed to the chain.
package main

import (
	"encoding/json"
	"flag"
	"fmt"
	"os"
	"path/filepath"
	"sort"
	"strings"
	"sync"
	"sync/atomic"
	"time"

	"com.tuntun.rangers/node/src/common"
	"com.tuntun.rangers/node/src/consensus/access"
	"com.tuntun.rangers/node/src/consensus/groupsig"
	"com.tuntun.rangers/node/src/consensus/logical"
	"com.tuntun.rangers/node/src/consensus/logical/group_create"
	"com.tuntun.rangers/node/src/consensus/model"
	cnet "com.tuntun.rangers/node/src/consensus/net"
	"com.tuntun.rangers/node/src/consensus/vrf"
	"com.tuntun.rangers/node/src/core"
	"com.tuntun.rangers/node/src/middleware/types"
	"verif/harness/internal/cryptoutil"
	"verif/harness/internal/vutil"
)

const nMem = 3 // group size; the node under test is member 1

type tmsg struct {
	Type   string `json:"type"`
	Prop   string `json:"prop"`
	Filed  string `json:"filed"`
	Signed string `json:"signed"`
	Sender int    `json:"sender"`
	V      int    `json:"v"`
}

type thist struct {
	H    []tmsg `json:"h"`
	Nadd int    `json:"nadd"`
}

// ---------------------------------------------------------------- genesis helper

type helper struct {
	vutil.StubHelper
	info []*types.GenesisInfo
}

func (h *helper) GenerateGenesisInfo() []*types.GenesisInfo { return h.info }

// ---------------------------------------------------------------- recording collaborators

type recNet struct {
	mu        sync.Mutex
	verified  []*model.ConsensusVerifyMessage
	newBlocks []common.Hash
}

func (n *recNet) SendGroupPingMessage(*model.CreateGroupPingMessage, groupsig.ID)                {}
func (n *recNet) SendGroupPongMessage(*model.CreateGroupPongMessage, string, bool)               {}
func (n *recNet) SendCreateGroupRawMessage(*model.ParentGroupConsensusMessage, bool)             {}
func (n *recNet) SendCreateGroupSignMessage(*model.ParentGroupConsensusSignMessage, groupsig.ID) {}
func (n *recNet) SendGroupInitMessage(*model.GroupInitMessage)                                   {}
func (n *recNet) SendKeySharePiece(*model.SharePieceMessage)                                     {}
func (n *recNet) SendSignPubKey(*model.SignPubKeyMessage)                                        {}
func (n *recNet) BroadcastGroupInfo(*model.GroupInitedMessage)                                   {}
func (n *recNet) SendCandidate(*model.ConsensusCastMessage)                                      {}
func (n *recNet) JoinGroupNet(string)                                                            {}
func (n *recNet) ReleaseGroupNet(string)                                                         {}
func (n *recNet) ReqSharePiece(*model.ReqSharePieceMessage, groupsig.ID)                         {}
func (n *recNet) ResponseSharePiece(*model.ResponseSharePieceMessage, groupsig.ID)               {}
func (n *recNet) AskSignPkMessage(*model.SignPubkeyReqMessage, groupsig.ID)                      {}
func (n *recNet) AnswerSignPkMessage(*model.SignPubKeyMessage, groupsig.ID)                      {}
func (n *recNet) SendVerifiedCast(cvm *model.ConsensusVerifyMessage, receiver groupsig.ID) {
	n.mu.Lock()
	n.verified = append(n.verified, cvm)
	n.mu.Unlock()
}
func (n *recNet) BroadcastNewBlock(cbm *model.ConsensusBlockMessage) {
	n.mu.Lock()
	n.newBlocks = append(n.newBlocks, cbm.Block.Header.Hash)
	n.mu.Unlock()
}

var _ cnet.NetworkServer = (*recNet)(nil)

// recChain is the real chain for reading; blocks handed over for adding are recorded.
type recChain struct {
	core.BlockChain
	mu        sync.Mutex
	added     []common.Hash
	existing  map[common.Hash]*types.Block
	generated int
}

func (c *recChain) AddBlockOnChain(b *types.Block) types.AddBlockResult {
	c.mu.Lock()
	defer c.mu.Unlock()
	c.added = append(c.added, b.Header.Hash)
	c.existing[b.Header.Hash] = b
	return types.AddBlockSucc
}
func (c *recChain) GenerateBlock(bh types.BlockHeader) *types.Block {
	c.mu.Lock()
	c.generated++
	c.mu.Unlock()
	return c.BlockChain.GenerateBlock(bh)
}
func (c *recChain) HasBlockByHash(h common.Hash) bool {
	c.mu.Lock()
	_, ok := c.existing[h]
	c.mu.Unlock()
	return ok || c.BlockChain.HasBlockByHash(h)
}
func (c *recChain) QueryBlockByHash(h common.Hash) *types.Block {
	c.mu.Lock()
	b, ok := c.existing[h]
	c.mu.Unlock()
	if ok {
		return b
	}
	return c.BlockChain.QueryBlockByHash(h)
}

// ---------------------------------------------------------------- the world

type proposal struct {
	label string
	bh    types.BlockHeader
	ccm   *model.ConsensusCastMessage
	key   string
}

type world struct {
	g       *cryptoutil.Group
	gpk     groupsig.Pubkey
	gid     groupsig.ID
	prop    *model.SelfMinerInfo
	joined  *access.JoinedGroupStorage
	groups  *access.GroupAccessor
	genesis *types.BlockHeader
	props   map[string]*proposal
	label   map[string]string // hex of block hash / party key -> label
	idx     map[string]int    // member id hex -> index
	vmu     sync.Mutex
	vcache  map[string]bool
}

func (w *world) valid(i int, data []byte, sig []byte) bool {
	key := fmt.Sprintf("%d|%x|%x", i, data, sig)
	w.vmu.Lock()
	v, ok := w.vcache[key]
	w.vmu.Unlock()
	if ok {
		return v
	}
	func() {
		defer func() { recover() }()
		v = groupsig.VerifySig(w.g.SignPK[i-1], data, *groupsig.DeserializeSign(sig))
	}()
	w.vmu.Lock()
	w.vcache[key] = v
	w.vmu.Unlock()
	return v
}

func boot(dir string, salt int64) *world {
	rng := vutil.Rng(1500 + 1000*salt)
	w := &world{props: map[string]*proposal{}, label: map[string]string{}, idx: map[string]int{}, vcache: map[string]bool{}}
	// the proposer of the slot: BLS miner key and VRF key owned by the harness
	w.prop = cryptoutil.NewMiner(rng, 0)
	vpk, vsk, err := vrf.VRFGenerateKey(rng)
	if err != nil {
		vutil.Fatalf("vrf keygen: %v", err)
	}
	w.prop.VrfPK, w.prop.VrfSK = vpk, vsk
	pd, _ := json.Marshal(map[string]string{"id": w.prop.ID.GetHexString(), "publicKey": w.prop.PubKey.GetHexString(),
		"vrfPublicKey": vpk.GetHexString(), "account": "0x1111111111111111111111111111111111111111"})
	genesisTime := time.Now().Add(-20 * time.Second)
	gc := common.GenesisConf{Creator: "0x2222222222222222222222222222222222222222", Stake: "1000", TotalReward: "1000", TargetHeight: 100,
		Name: "verif", Cast: 2000, GenesisTime: genesisTime.UnixMilli(), TimeCycle: 10, TokenName: "V", TotalSupply: 21000000,
		Symbol: "V", ReleaseRate: 2, ProposalToken: 35, ValidatorToken: 35, Proposals: 1, Validators: nMem,
		ProposerInfo: []string{string(pd)}, Dev: 1}
	b, _ := json.Marshal(gc)
	if err := os.MkdirAll(dir, 0755); err != nil {
		vutil.Fatalf("mkdir: %v", err)
	}
	if err := os.WriteFile(filepath.Join(dir, "genesis.json"), b, 0644); err != nil {
		vutil.Fatalf("write genesis: %v", err)
	}
	vutil.BootServices(dir)
	logical.InitConsensus()
	access.NewMinerPoolReader()
	cnet.InitStateMachines()
	g, err := cryptoutil.RunDKG(rng, nMem, fmt.Sprintf("c15p-%d", salt))
	if err != nil {
		vutil.Fatalf("dkg: %v", err)
	}
	w.g, w.gpk = g, g.GPK[0]
	w.gid = *groupsig.NewIDFromPubkey(w.gpk)
	gi := model.NewGroupInfo(w.gid, w.gpk, g.Info)
	members, vpks, pks := make([][]byte, nMem), make([][]byte, nMem), make([][]byte, nMem)
	for i := 0; i < nMem; i++ {
		members[i] = g.IDs[i].Serialize()
		vp, _, _ := vrf.VRFGenerateKey(rng)
		vpks[i] = vp
		pks[i] = g.Miners[i].PubKey.Serialize()
		w.idx[g.IDs[i].GetHexString()] = i + 1
	}
	cg := &types.Group{Header: gi.GetGroupHeader(), Id: w.gid.Serialize(), PubKey: w.gpk.Serialize(), Members: members}
	if err := core.VerifInitChain(&helper{info: []*types.GenesisInfo{{Group: *cg, VrfPKs: vpks, Pks: pks}}}); err != nil {
		vutil.Fatalf("init chain: %v", err)
	}
	w.genesis = core.GetBlockChain().TopBlock()
	// the node (member 1) joined the group and knows every member's public share
	jg := model.NewJoindGroupInfo(g.SignSK[0], w.gpk, g.Info.GroupHash())
	for i := 0; i < nMem; i++ {
		jg.AddMemberSignPK(g.IDs[i], g.SignPK[i])
	}
	w.joined = access.NewJoinedGroupStorage()
	w.joined.JoinGroup(jg, g.IDs[0])
	group_create.VerifInstallJoinedGroups(w.joined)
	w.groups = access.NewGroupAccessor(core.GetGroupChain())
	w.groups.AddGroupInfo(gi)
	// proposals of the slot (height 1 on the genesis block): A and A2 are cast in the same VRF time
	// window (same proof, hence the same party key) at different instants (different block hash);
	// B is cast in the next window (another proof, another key)
	w.propose("A", genesisTime.Add(1000*time.Millisecond))
	w.propose("A2", genesisTime.Add(1500*time.Millisecond))
	w.propose("B", genesisTime.Add(3000*time.Millisecond))
	if w.props["A"].key != w.props["A2"].key || w.props["A"].key == w.props["B"].key ||
		w.props["A"].bh.Hash == w.props["A2"].bh.Hash {
		vutil.Fatalf("harness: proposals do not have the intended key/hash relations: keys %s %s %s hashes %s %s %s", w.props["A"].key, w.props["A2"].key, w.props["B"].key, w.props["A"].bh.Hash.Hex(), w.props["A2"].bh.Hash.Hex(), w.props["B"].bh.Hash.Hex())
	}
	w.label[w.props["A"].key] = "k1"
	w.label[w.props["B"].key] = "k2"
	// precondition of every replay: the node admits each of the harness' proposals when it is the
	// first thing it hears (round 0 accepts, the party is re-keyed under the block hash)
	for _, lbl := range []string{"A", "A2", "B"} {
		evs := runHistory(w, thist{H: []tmsg{{Type: "cast", Prop: lbl, Filed: "h" + lbl, Signed: "h" + lbl}}}, 30*time.Millisecond)
		st := evs[1]["state"].(map[string]interface{})
		ok := false
		for _, p := range st["parties"].([]interface{}) {
			if p.(map[string]interface{})["key"] == "h"+lbl {
				ok = true
			}
		}
		if !ok {
			b, _ := json.Marshal(st)
			vutil.Fatalf("harness: the node does not admit proposal %s (prove value %d bytes, cast time %v): %s",
				lbl, len(w.props[lbl].bh.ProveValue.Bytes()), w.props[lbl].bh.CurTime, b)
		}
	}
	return w
}

// propose does what Processor.blockProposal does for the harness' proposer.
func (w *world) propose(label string, castTime time.Time) {
	pre := w.genesis
	delta := logical.CalDeltaByTime(castTime, pre.CurTime)
	msg := logical.VerifGenVrfMsg(pre.Random, delta)
	pi, err := vrf.VRFGenProve(w.prop.VrfPK, w.prop.VrfSK, msg)
	if err != nil {
		vutil.Fatalf("prove: %v", err)
	}
	totalStake := access.NewMinerPoolReader().GetTotalStake(pre.Height, pre.StateTree)
	ok, qn := logical.VerifValidateProve(pi, pre.Height, 0, totalStake)
	if !ok {
		vutil.Fatalf("harness: the proposer's proof does not qualify (total stake %d)", totalStake)
	}
	bh, cast := core.GetBlockChain().CastBlock(castTime, 1, pi.Big(), common.Hash{}, qn, w.prop.ID.Serialize(), w.gid.Serialize())
	if !cast {
		vutil.Fatalf("harness: CastBlock failed")
	}
	ccm := &model.ConsensusCastMessage{BH: bh, ProveHash: []common.Hash{}, Id: "cast-" + label}
	si, ok := model.NewSignInfo(w.prop.SecKey, w.prop.ID, ccm)
	if !ok {
		vutil.Fatalf("harness: cannot sign the proposal")
	}
	ccm.SignInfo = si
	keyer := logical.VerifNewProcessor(w.g.Miners[0], w.joined, w.groups, core.GetBlockChain(), &recNet{})
	p := &proposal{label: label, bh: bh, ccm: ccm, key: keyer.VerifPartyKey(bh)}
	w.props[label] = p
	w.label[bh.Hash.Hex()] = "h" + label
	w.label[common.ToHex(bh.Hash.Bytes())] = "h" + label
}

func (w *world) lab(s string) string {
	if l, ok := w.label[s]; ok {
		return l
	}
	return "other"
}

// ---------------------------------------------------------------- one sequence

type run struct {
	w     *world
	vp    *logical.VerifProcessor
	chain *recChain
	net   *recNet
}

func (r *run) project() map[string]interface{} {
	w := r.w
	parties := []map[string]interface{}{}
	for _, pv := range r.vp.Parties() {
		shares := []map[string]interface{}{}
		var blockHash []byte
		for _, p := range w.props {
			if p.bh.Hash.Hex() == pv.BlockHash {
				blockHash = p.bh.Hash.Bytes()
			}
		}
		for i, id := range pv.Shares {
			m, ok := w.idx[id]
			if !ok {
				m = nMem + 1
			}
			shares = append(shares, map[string]interface{}{"m": m, "valid": ok && blockHash != nil && w.valid(m, blockHash, pv.ShareSigs[i])})
		}
		sort.Slice(shares, func(a, b int) bool { return shares[a]["m"].(int) < shares[b]["m"].(int) })
		block := "none"
		if pv.HasBlock {
			block = w.lab(pv.BlockHash)
		}
		parties = append(parties, map[string]interface{}{"key": w.lab(pv.Key), "id": w.lab(pv.Id), "round": pv.Round, "block": block,
			"shares": shares, "recovered": pv.Recovered, "future": pv.PartyFuture})
	}
	sort.Slice(parties, func(a, b int) bool { return parties[a]["key"].(string) < parties[b]["key"].(string) })
	finished := []string{}
	buffered := map[string]int{}
	for _, lbl := range []string{"A", "A2", "B"} {
		p := w.props[lbl]
		hk := common.ToHex(p.bh.Hash.Bytes())
		if r.vp.Finished(hk) {
			finished = append(finished, "h"+lbl)
		}
		buffered["h"+lbl] = r.vp.BufferedFor(hk)
	}
	if r.vp.Finished(w.props["A"].key) {
		finished = append(finished, "k1")
	}
	if r.vp.Finished(w.props["B"].key) {
		finished = append(finished, "k2")
	}
	sort.Strings(finished)
	r.chain.mu.Lock()
	added := []string{}
	for _, h := range r.chain.added {
		added = append(added, w.lab(h.Hex()))
	}
	generated := r.chain.generated
	r.chain.mu.Unlock()
	r.net.mu.Lock()
	own := []string{}
	for _, c := range r.net.verified {
		own = append(own, w.lab(c.BlockHash.Hex())[1:])
	}
	nb := []string{}
	for _, h := range r.net.newBlocks {
		nb = append(nb, w.lab(h.Hex()))
	}
	r.net.mu.Unlock()
	sort.Strings(own)
	return map[string]interface{}{"parties": parties, "finished": finished, "buffered": buffered, "added": added,
		"generated": generated, "ownSent": own, "broadcast": nb}
}

// pending tells whether the code under test visibly still has asynchronous work queued: a party that
// finished round 0 but is not yet re-keyed under its block hash (waitUntilDone has not consumed the
// changed id), a party in its last round still in the table (waitUntilDone has not consumed "done"),
// or a generated block not yet handed to the chain (round 2 adds it in a goroutine).
func pending(st map[string]interface{}) bool {
	for _, p := range st["parties"].([]interface{}) {
		pm := p.(map[string]interface{})
		round := int(pm["round"].(float64))
		if round >= 1 && pm["key"] != pm["block"] {
			return true
		}
		if round == 2 || round == -1 {
			return true
		}
	}
	return int(st["generated"].(float64)) > len(st["added"].([]interface{}))
}

// settle waits until the projection has not changed for a while and nothing is visibly pending (the
// party re-key, the replay of buffered messages and the hand-over to the chain run in goroutines of
// the code under test). After a re-key the quiet period is longer: the replays start after it.
func (r *run) settle(quiet time.Duration) map[string]interface{} {
	snap := func() (string, map[string]interface{}) {
		b, _ := json.Marshal(r.project())
		var st map[string]interface{}
		json.Unmarshal(b, &st)
		return string(b), st
	}
	last, st := snap()
	stableSince := time.Now()
	deadline := time.Now().Add(4 * time.Second)
	need := quiet
	for time.Now().Before(deadline) {
		time.Sleep(2 * time.Millisecond)
		cur, cst := snap()
		if cur != last {
			if pending(st) && !pending(cst) {
				need = 3 * quiet
			}
			last, st, stableSince = cur, cst, time.Now()
		} else if !pending(st) && time.Since(stableSince) >= need {
			break
		}
	}
	return st
}

func (r *run) verifyMsg(m tmsg, seq int) *model.ConsensusVerifyMessage {
	w := r.w
	filed := w.props[m.Filed[1:]].bh.Hash
	signed := w.props[m.Signed[1:]].bh.Hash
	sk := w.g.SignSK[m.Sender-1]
	if m.Type == "forged" {
		// the faulty member (the last one) files a message under member m.Sender's id: its own key over
		// the block hash (v = 1), or points that are nobody's shares (v >= 2)
		fk := w.g.SignSK[nMem-1]
		share, rnd := groupsig.Sign(fk, filed.Bytes()), groupsig.Sign(fk, w.genesis.Random)
		if m.V >= 2 {
			share = groupsig.Sign(fk, []byte(fmt.Sprintf("forged-%d", m.V)))
		}
		return &model.ConsensusVerifyMessage{
			BlockHash:  filed,
			RandomSign: rnd,
			Id:         fmt.Sprintf("f-%s-%d-%d", m.Filed, m.Sender, m.V),
			SignInfo:   model.MakeSignInfo(filed, share, w.g.IDs[m.Sender-1], common.ConsensusVersion),
		}
	}
	return &model.ConsensusVerifyMessage{
		BlockHash:  filed,
		RandomSign: groupsig.Sign(sk, w.genesis.Random),
		Id:         fmt.Sprintf("v-%s-%s-%d", m.Filed, m.Signed, m.Sender), // a re-delivery carries the same id
		SignInfo:   model.MakeSignInfo(signed, groupsig.Sign(sk, signed.Bytes()), w.g.IDs[m.Sender-1], common.ConsensusVersion),
	}
}

// partyKeyMsg: a verify message of the faulty member whose block hash and signed data hash are the party
// key of the proposal, with the member's real share key over it and a real beacon share.
func (r *run) partyKeyMsg(prop string) *model.ConsensusVerifyMessage {
	w := r.w
	key := common.BytesToHash(common.FromHex(w.props[prop].key))
	fk := w.g.SignSK[nMem-1]
	return &model.ConsensusVerifyMessage{
		BlockHash:  key,
		RandomSign: groupsig.Sign(fk, w.genesis.Random),
		Id:         "pk-" + prop,
		SignInfo:   model.MakeSignInfo(key, groupsig.Sign(fk, key.Bytes()), w.g.IDs[nMem-1], common.ConsensusVersion),
	}
}

var underFire int64

func runHistory(w *world, h thist, quiet time.Duration) []map[string]interface{} {
	r := &run{w: w, chain: &recChain{BlockChain: core.GetBlockChain(), existing: map[common.Hash]*types.Block{}}, net: &recNet{}}
	r.vp = logical.VerifNewProcessor(w.g.Miners[0], w.joined, w.groups, r.chain, r.net)
	evs := []map[string]interface{}{{"event": "Start", "n": nMem, "k": model.Param.GetGroupK(nMem)}}
	// a party gives up 10 s after its creation: a replay that is slower than that between the first
	// proposal and its last call (a starved machine) times out on its own and is marked, not judged
	var firstCast time.Time
	slow := false
	for i, m := range h.H {
		if m.Type == "cast" && firstCast.IsZero() {
			firstCast = time.Now()
		}
		note := ""
		panicked := false
		q := quiet
		if m.Type == "cast" && r.vp.BufferedFor(common.ToHex(w.props[m.Prop].bh.Hash.Bytes())) > 0 {
			// the re-key will replay buffered messages in goroutines whose completion is not visible
			q = 4 * quiet
		}
		func() {
			defer func() {
				if p := recover(); p != nil {
					panicked = true
				}
			}()
			switch m.Type {
			case "cast":
				ccm := *w.props[m.Prop].ccm // the handler keeps a pointer into the message
				if m.V == 1 {
					// while the proposal is handled the faulty member (the last one) keeps sending a share OVER
					// THE PARTY KEY, filed under the party key: the party sits under that key from its creation
					// until waitUntilDone has re-filed it under the block hash, round 1 is already running then
					pk := r.partyKeyMsg(m.Prop)
					stop, done := make(chan struct{}), make(chan struct{})
					go func() {
						defer close(done)
						defer func() { recover() }()
						for {
							select {
							case <-stop:
								return
							default:
							}
							c := *pk
							r.vp.OnMessageVerify(&c)
							time.Sleep(20 * time.Microsecond)
						}
					}()
					r.vp.OnMessageCast(&ccm)
					time.Sleep(2 * time.Millisecond)
					close(stop)
					<-done
					atomic.AddInt64(&underFire, 1)
				} else {
					r.vp.OnMessageCast(&ccm)
				}
			case "verify", "wrongBlock", "forged":
				r.vp.OnMessageVerify(r.verifyMsg(m, i))
			case "own":
				// what the node sent to the group also comes back to the node itself (send2Self)
				r.net.mu.Lock()
				var own *model.ConsensusVerifyMessage
				for _, c := range r.net.verified {
					if c.BlockHash == w.props[m.Prop].bh.Hash {
						own = c
					}
				}
				r.net.mu.Unlock()
				if own == nil {
					note = "the node sent no share for this proposal"
				} else {
					own.Id = "own-" + m.Prop
					r.vp.OnMessageVerify(own)
				}
			case "timeout":
				firstCast = time.Time{} // the expiry is intended from here on
				// the party's waitUntilDone gives up after 10 s without completion
				deadline := time.Now().Add(14 * time.Second)
				for time.Now().Before(deadline) && len(r.vp.Parties()) > 0 {
					time.Sleep(50 * time.Millisecond)
				}
			default:
				vutil.Fatalf("unknown message type %q", m.Type)
			}
		}()
		evs = append(evs, map[string]interface{}{"event": "Call", "m": m, "note": note, "panicked": panicked, "state": r.settle(q)})
		if !firstCast.IsZero() && time.Since(firstCast) > 7*time.Second {
			slow = true
		}
	}
	evs = append(evs, map[string]interface{}{"event": "End", "slow": slow, "state": r.settle(2 * quiet)})
	return evs
}

func main() {
	out := flag.String("out", "trace.ndjson", "trace file")
	script := flag.String("script", "", "JSON file: list of sequences generated by TLC")
	scratch := flag.String("scratch", "", "scratch directory")
	salt := flag.Int64("salt", 0, "shard number")
	workers := flag.Int("workers", 8, "sequences replayed concurrently (each on its own Processor)")
	quietMs := flag.Int("quiet", 25, "milliseconds without change that count as quiescent")
	flag.Parse()
	if *scratch == "" {
		vutil.Fatalf("--scratch required")
	}
	outAbs, _ := filepath.Abs(*out)
	var hists []thist
	b, err := os.ReadFile(*script)
	if err != nil {
		vutil.Fatalf("read script: %v", err)
	}
	if err := json.Unmarshal(b, &hists); err != nil {
		vutil.Fatalf("parse script: %v", err)
	}
	w := boot(*scratch, *salt)
	results := make([][]map[string]interface{}, len(hists))
	var wg sync.WaitGroup
	sem := make(chan struct{}, *workers)
	for i := range hists {
		wg.Add(1)
		sem <- struct{}{}
		go func(i int) {
			defer wg.Done()
			defer func() { <-sem }()
			results[i] = runHistory(w, hists[i], time.Duration(*quietMs)*time.Millisecond)
		}(i)
	}
	wg.Wait()
	tr := vutil.NewTrace(outAbs)
	counts := map[string]int{}
	for _, evs := range results {
		nadd := 0
		for _, e := range evs {
			tr.Emit(e)
			if e["event"] == "Call" {
				counts[e["m"].(tmsg).Type]++
				counts["calls"]++
			}
			if e["event"] == "End" {
				nadd = len(e["state"].(map[string]interface{})["added"].([]interface{}))
			}
		}
		if nadd >= 1 {
			counts["finalised"]++
		}
		if nadd >= 2 {
			counts["twoBlocks"]++
		}
		if evs[len(evs)-1]["slow"] == true {
			counts["slow"]++
		}
	}
	tr.Close()
	// what the processor logged as party errors (diagnosis of proposals that were not admitted)
	if b, err := os.ReadFile(filepath.Join(*scratch, "logs", "c.log")); err == nil {
		seen := map[string]bool{}
		for _, line := range strings.Split(string(b), "\n") {
			if i := strings.Index(line, "error: "); i >= 0 {
				msg := line[i:]
				if j := strings.Index(msg, ", id:"); j > 0 {
					msg = msg[:j]
				}
				if len(msg) > 160 {
					msg = msg[:160]
				}
				counts["partyErrors"]++
				if !seen[msg] && len(seen) < 4 {
					seen[msg] = true
					fmt.Printf("c15p-log: %s\n", msg)
				}
			}
		}
	}
	fmt.Printf("c15p: castUnderFire=%d histories=%d calls=%d cast=%d verify=%d own=%d wrongBlock=%d forged=%d timeout=%d finalised=%d twoBlocks=%d slow=%d partyErrors=%d events=%d\n",
		underFire, len(hists), counts["calls"], counts["cast"], counts["verify"], counts["own"], counts["wrongBlock"], counts["forged"], counts["timeout"],
		counts["finalised"], counts["twoBlocks"], counts["slow"], counts["partyErrors"], tr.N)
}
