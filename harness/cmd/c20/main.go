// c20 executes sequences of miner-management transactions (apply, add stake,
// refund, change account), grouped into blocks, through the node's real
// executors on a real AccountDB, and records after every block the complete
// projection of the registry (lookup by id, by account, by iteration, totals),
// balances and refund escrow as ndjson events for spec/MinerRegistryTrace.tla.
package main

import (
	"crypto/sha256"
	"encoding/json"
	"flag"
	"fmt"
	"math/big"
	"os"
	"path/filepath"
	"strconv"

	"com.tuntun.rangers/node/src/common"
	"com.tuntun.rangers/node/src/middleware/types"
	"com.tuntun.rangers/node/src/service"
	"com.tuntun.rangers/node/src/storage/account"
	"com.tuntun.rangers/node/src/utility"
	"verif/harness/internal/execdrv"
	"verif/harness/internal/vutil"
)

type txSpec struct {
	Kind    string `json:"kind"`
	Id      int    `json:"id"`
	Type    int    `json:"type"`
	Stake   int    `json:"stake"`
	Account int    `json:"account"`
	Source  int    `json:"source"`
}

type step struct {
	Tx txSpec `json:"tx"`
	Nb bool   `json:"nb"`
}

const (
	nIds      = 2
	nAccounts = 4
	refundGap = 36000
	bigHeight = 1000000000
)

var (
	// 1, 2 funded; 3 holds 2 RPG; 4 is cold: an address that never held anything (no state object),
	// only ever named as the account of a miner
	accounts = []string{"", execdrv.Funded[0], execdrv.Funded[1], execdrv.Poor, "0x00000000000000000000000000000000c01dc01d"}
	minerIds [][]byte
	pk       = make([]byte, 128)
	vrfPk    = make([]byte, 32)
)

func minerId(i int) []byte {
	h := sha256.Sum256([]byte(fmt.Sprintf("verif-miner-%d", i)))
	return h[:]
}

func accountIdx(b []byte) int {
	if len(b) == 0 {
		return 0
	}
	a := common.BytesToAddress(b)
	for i := 1; i <= nAccounts; i++ {
		if a == common.HexToAddress(accounts[i]) {
			return i
		}
	}
	return 98
}

func idIdx(b []byte) int {
	if len(b) == 0 {
		return 0
	}
	for i := 1; i <= nIds; i++ {
		if string(b) == string(minerIds[i]) {
			return i
		}
	}
	return 98
}

func refundAddr(height uint64) common.Address {
	return common.BytesToAddress(common.Sha256(utility.StrToBytes("refund" + strconv.FormatUint(height, 10))))
}

func mkTx(ts txSpec, seq uint64, salt string) *types.Transaction {
	src := accounts[ts.Source]
	switch ts.Kind {
	case "Apply":
		m := types.Miner{Id: minerIds[ts.Id], PublicKey: pk, VrfPublicKey: vrfPk, Type: byte(ts.Type), Stake: uint64(ts.Stake),
			Account: common.FromHex(accounts[ts.Account])}
		d, _ := json.Marshal(m)
		return execdrv.NewTx(types.TransactionTypeMinerApply, src, "", string(d), "", seq, salt)
	case "Add":
		m := types.Miner{Id: minerIds[ts.Id], Stake: uint64(ts.Stake)}
		d, _ := json.Marshal(m)
		return execdrv.NewTx(types.TransactionTypeMinerAdd, src, "", string(d), "", seq, salt)
	case "Refund":
		amount := strconv.Itoa(ts.Stake)
		if ts.Stake < 0 {
			amount = "18446744073709551615"
		}
		d, _ := json.Marshal(map[string]string{"Amount": amount, "MinerId": common.ToHex(minerIds[ts.Id])})
		return execdrv.NewTx(types.TransactionTypeMinerRefund, src, "", string(d), "", seq, salt)
	case "Change":
		m := types.Miner{Id: minerIds[ts.Id], Account: common.FromHex(accounts[ts.Account])}
		d, _ := json.Marshal(m)
		return execdrv.NewTx(types.TransactionTypeMinerChangeAccount, src, "", string(d), "", seq, salt)
	}
	vutil.Fatalf("unknown tx kind %q", ts.Kind)
	return nil
}

func project(st *account.AccountDB, refundHeights []uint64) map[string]interface{} {
	mm := service.MinerManagerImpl
	out := map[string]interface{}{}
	byId := make([]map[string]interface{}, 0)
	for i := 1; i <= nIds; i++ {
		m := mm.GetMiner(minerIds[i], st)
		if m == nil {
			byId = append(byId, map[string]interface{}{"present": false, "type": 0, "stake": 0, "account": 0, "abort": false})
			continue
		}
		byId = append(byId, map[string]interface{}{"present": true, "type": int(m.Type), "stake": int(m.Stake),
			"account": accountIdx(m.Account), "abort": m.Status == common.MinerStatusAbort})
	}
	out["byId"] = byId
	byAcc := make([]int, 0)
	for a := 1; a <= nAccounts; a++ {
		byAcc = append(byAcc, idIdx(mm.GetMinerIdByAccount(common.FromHex(accounts[a]), st)))
	}
	out["byAccount"] = byAcc
	// iteration views
	props, vals := mm.GetAllMinerIdAndAccount(bigHeight, st)
	iterAcc := make([]int, nIds) // account seen by iteration for each universe id, 0 = not listed
	for i := 1; i <= nIds; i++ {
		key := common.ToHex(minerIds[i])
		if a, ok := props[key]; ok {
			iterAcc[i-1] = accountIdx(a.Bytes())
		} else if a, ok := vals[key]; ok {
			iterAcc[i-1] = accountIdx(a.Bytes())
		}
	}
	out["iterAccount"] = iterAcc
	total, detail := mm.GetProposerTotalStakeWithDetail(bigHeight, st)
	pd := make([]int, nIds)
	sum := uint64(0)
	cnt := 0
	for i := 1; i <= nIds; i++ {
		if s, ok := detail[common.ToHex(minerIds[i])]; ok {
			pd[i-1] = int(s)
			sum += s
			cnt++
		} else {
			pd[i-1] = -1
		}
	}
	out["propDetail"] = pd
	// activity boundary: a proposer takes part in the election from its apply height on
	// (height >= ApplyHeight, as GetAllMinerIdAndAccount / GetProposerTotalStakeWithDetail state it)
	atApply := make([]int, nIds)  // 1 listed at h = ApplyHeight, 0 not listed, -1 not applicable
	before := make([]int, nIds)   // same at h = ApplyHeight - 1
	for i := 1; i <= nIds; i++ {
		atApply[i-1], before[i-1] = -1, -1
		m := mm.GetMiner(minerIds[i], st)
		if m == nil || m.Type != common.MinerTypeProposer || m.Status != common.MinerStatusNormal || m.ApplyHeight == 0 {
			continue
		}
		key := common.ToHex(minerIds[i])
		_, d1 := mm.GetProposerTotalStakeWithDetail(m.ApplyHeight, st)
		_, d0 := mm.GetProposerTotalStakeWithDetail(m.ApplyHeight-1, st)
		atApply[i-1], before[i-1] = 0, 0
		if _, ok := d1[key]; ok {
			atApply[i-1] = 1
		}
		if _, ok := d0[key]; ok {
			before[i-1] = 1
		}
	}
	out["propAtApplyHeight"] = atApply
	out["propBeforeApplyHeight"] = before
	out["propTotalUniverse"] = int(sum)
	out["propOthers"] = int(total - sum)
	out["propCountOthers"] = len(detail) - cnt
	members := [][]byte{}
	for i := 1; i <= nIds; i++ {
		members = append(members, minerIds[i])
	}
	vt, _ := mm.GetValidatorsStake(members, st)
	out["valTotalUniverse"] = int(vt)
	bal := make([][]int, 0)
	tok := make([]int, 0)
	for a := 1; a <= nAccounts; a++ {
		b := st.GetBalance(common.HexToAddress(accounts[a]))
		bal = append(bal, execdrv.Digits(b))
		tok = append(tok, execdrv.Tokens(b))
	}
	out["bal"] = bal
	out["balTokens"] = tok
	out["fee"] = execdrv.Digits(st.GetBalance(common.FeeAccount))
	esc := new(big.Int)
	// read-only lookups (GetAllRefund would create and journal an empty account object)
	for _, h := range refundHeights {
		for a := 1; a <= nAccounts; a++ {
			if v := st.GetData(refundAddr(h), common.FromHex(accounts[a])); len(v) > 0 {
				esc.Add(esc, new(big.Int).SetBytes(v))
			}
		}
	}
	out["escrow"] = execdrv.Digits(esc)
	return out
}

func runHistory(tr *vutil.Trace, n int, h []step) int {
	st := execdrv.FreshState()
	refundHeights := []uint64{}
	tr.Emit(map[string]interface{}{"event": "Reset", "state": project(st, refundHeights)})
	height := uint64(0)
	blocks := 0
	i := 0
	for i < len(h) {
		j := i + 1
		for j < len(h) && !h[j].Nb {
			j++
		}
		height++
		list := make([]*types.Transaction, 0)
		for k := i; k < j; k++ {
			list = append(list, mkTx(h[k].Tx, uint64(k+1), fmt.Sprintf("h%d-%d", n, k)))
		}
		hashes := make([]common.Hash, len(list))
		for k, t := range list {
			hashes[k] = t.Hash
		}
		res := execdrv.Execute(st, height, list)
		refundHeights = append(refundHeights, height+refundGap)
		evs := make([]map[string]interface{}, 0)
		for k := i; k < j; k++ {
			t := h[k].Tx
			evs = append(evs, map[string]interface{}{"kind": t.Kind, "id": t.Id, "type": t.Type, "stake": t.Stake,
				"account": t.Account, "source": t.Source, "ok": res.Ok(hashes[k-i])})
		}
		tr.Emit(map[string]interface{}{"event": "Block", "height": int(height), "txs": evs, "state": project(st, refundHeights)})
		blocks++
		i = j
	}
	// let the earliest refund mature: an empty block at its height credits the escrow
	if len(refundHeights) > 0 {
		hh := refundHeights[0]
		execdrv.Execute(st, hh, nil)
		tr.Emit(map[string]interface{}{"event": "Mature", "height": int(hh), "state": project(st, refundHeights)})
	}
	return blocks
}

func main() {
	out := flag.String("out", "trace.ndjson", "")
	script := flag.String("script", "", "TLC histories (MinerRegistryMC HIST lines)")
	scratch := flag.String("scratch", "", "")
	flag.Parse()
	if *scratch == "" || *script == "" {
		vutil.Fatalf("--scratch and --script required")
	}
	outAbs, _ := filepath.Abs(*out)
	scriptAbs, _ := filepath.Abs(*script)
	minerIds = make([][]byte, nIds+1)
	for i := 1; i <= nIds; i++ {
		minerIds[i] = minerId(i)
	}
	for i := range pk {
		pk[i] = byte(i + 1)
	}
	for i := range vrfPk {
		vrfPk[i] = byte(i + 7)
	}
	execdrv.Boot(*scratch)
	b, err := os.ReadFile(scriptAbs)
	if err != nil {
		vutil.Fatalf("read script: %v", err)
	}
	var hs [][]step
	if err := json.Unmarshal(b, &hs); err != nil {
		vutil.Fatalf("parse script: %v", err)
	}
	tr := vutil.NewTrace(outAbs)
	blocks := 0
	for n, h := range hs {
		blocks += runHistory(tr, n, h)
	}
	tr.Close()
	fmt.Printf("c20: histories=%d blocks=%d events=%d\n", len(hs), blocks, tr.N)
}
