// c02 replays TLC-generated operation histories of spec/Mpt.tla on the real
// trie (src/storage/trie) and records, for every step, the complete projection
// of the real trie as one ndjson event for spec/MptTrace.tla.
//
// The projection after a step is taken on a *clone*: a fresh MemDatabase +
// NodeDatabase + Trie on which the history prefix up to and including that step
// is re-executed.  Observation (Hash, TryGet of every key, iteration, Commit,
// walking the stored blobs) therefore never perturbs the cache state that the
// following steps of the history run on.
//
// The driver computes no expected value: it reports what the real trie answers,
// the node structure it really holds (in memory, by reflection; stored, by
// decoding the committed blobs with trieutil's own RLP splitter), the digests
// of that stored structure under trieutil's own encoder + x/crypto keccak, and
// the real root of a fresh real trie filled with the observed pairs in sorted
// order.  All judgements are made by the TLA+ monitor.
package main

import (
	"bytes"
	"encoding/json"
	"flag"
	"fmt"
	"os"
	"reflect"
	"sort"

	"com.tuntun.rangers/node/src/common"
	"com.tuntun.rangers/node/src/middleware/db"
	"com.tuntun.rangers/node/src/storage/trie"
	"verif/harness/internal/trieutil"
	"verif/harness/internal/vutil"
)

const (
	nKeys   = 16
	nVals   = 9
	unknown = 99 // a key / value outside the universe
	failed  = 98 // the call returned an error
)

var (
	keyBytes [nKeys + 1][]byte
	valBytes [nVals + 1][]byte
	valLen   = [nVals + 1]int{0, 1, 1, 28, 29, 31, 32, 40, 56, 33}
)

func initUniverse() {
	rep := func(n int, b byte) []byte { return bytes.Repeat([]byte{b}, n) }
	keyBytes[1] = []byte{}
	keyBytes[2] = []byte{0x12}
	keyBytes[3] = []byte{0x12, 0x34}
	keyBytes[4] = []byte{0x12, 0x35}
	keyBytes[5] = []byte{0x12, 0x44}
	keyBytes[6] = append(append([]byte{0xa0}, rep(30, 0x11)...), 0x01)
	keyBytes[7] = append(append([]byte{0xa0}, rep(30, 0x11)...), 0x02)
	keyBytes[8] = append([]byte{0xa1}, rep(31, 0x22)...)
	// long keys: nodes deeper than 255 nibbles
	p128 := rep(128, 0x5a)
	cat := func(a []byte, b ...byte) []byte { return append(append([]byte{}, a...), b...) }
	keyBytes[9] = cat(p128, 0x01)
	keyBytes[10] = cat(p128, 0x02)
	keyBytes[11] = cat(p128, 0x13)
	keyBytes[12] = cat(p128)
	keyBytes[13] = cat(p128, rep(128, 0x3c)...)
	keyBytes[14] = cat(p128, rep(127, 0x3c)...)
	keyBytes[15] = rep(127, 0x5a)
	keyBytes[16] = cat([]byte{0x5a}, rep(63, 0x07)...)
	for v := 1; v <= nVals; v++ {
		b := make([]byte, valLen[v])
		for i := range b {
			b[i] = byte(17*v + 3*i)
		}
		switch v {
		case 1:
			b[0] = 42
		case 2:
			b[0] = 128
		default:
			b[0] = byte(224 + v)
		}
		valBytes[v] = b
	}
}

func keyID(k []byte) int {
	for i := 1; i <= nKeys; i++ {
		if bytes.Equal(k, keyBytes[i]) {
			return i
		}
	}
	return unknown
}

func valID(v []byte) int {
	if len(v) == 0 {
		return 0
	}
	for i := 1; i <= nVals; i++ {
		if bytes.Equal(v, valBytes[i]) {
			return i
		}
	}
	return unknown
}

func ints(b []byte) []int {
	out := make([]int, len(b))
	for i, c := range b {
		out[i] = int(c)
	}
	return out
}

// ---------------------------------------------------------------- the subject

type subject struct {
	disk   *db.MemDatabase
	nodedb *trie.NodeDatabase
	t      *trie.Trie
	// the root of every version committed by the history (one per "C", "R", "X" call, in order;
	// the zero hash when the commit failed)
	versions []common.Hash
}

func newSubject() *subject {
	disk, _ := db.NewMemDatabase()
	ndb := trie.NewDatabase(disk)
	t, err := trie.NewTrie(common.Hash{}, ndb)
	if err != nil {
		vutil.Fatalf("NewTrie: %v", err)
	}
	return &subject{disk: disk, nodedb: ndb, t: t}
}

type call struct {
	Op string
	K  int
	V  int
}

func (c *call) UnmarshalJSON(b []byte) error {
	var raw []interface{}
	if err := json.Unmarshal(b, &raw); err != nil {
		return err
	}
	if len(raw) != 3 {
		return fmt.Errorf("call %s", b)
	}
	c.Op = raw[0].(string)
	c.K = int(raw[1].(float64))
	c.V = int(raw[2].(float64))
	return nil
}

type result struct {
	got      int    // TryGet: value id
	res      string // Hash / Commit / reopen: root hex
	err      bool
	panicked bool
}

// apply executes one call of the history on the real trie.
func (s *subject) apply(c call) (r result) {
	defer func() {
		if p := recover(); p != nil {
			r.err = true
			r.panicked = true
			r.res = fmt.Sprintf("panic: %v", p)
		}
	}()
	switch c.Op {
	case "U":
		var v []byte
		if c.V != 0 {
			v = valBytes[c.V]
		}
		r.err = s.t.TryUpdate(keyBytes[c.K], v) != nil
	case "D":
		r.err = s.t.TryDelete(keyBytes[c.K]) != nil
	case "G":
		v, err := s.t.TryGet(keyBytes[c.K])
		r.err = err != nil
		r.got = valID(v)
	case "H":
		h := s.t.Hash()
		r.res = trieutil.Hex(h[:])
	case "C":
		s.versions = append(s.versions, common.Hash{})
		h, err := s.t.Commit(nil)
		r.err = err != nil
		r.res = trieutil.Hex(h[:])
		if err == nil {
			s.versions[len(s.versions)-1] = h
		}
	case "R": // a new Trie over the same NodeDatabase
		s.versions = append(s.versions, common.Hash{})
		h, err := s.t.Commit(nil)
		if err != nil {
			r.err = true
			return
		}
		s.versions[len(s.versions)-1] = h
		t, err := trie.NewTrie(h, s.nodedb)
		if err != nil {
			r.err = true
			return
		}
		s.t = t
		r.res = trieutil.Hex(h[:])
	case "X": // flush to the disk store, forget every cache, re-open
		s.versions = append(s.versions, common.Hash{})
		h, err := s.t.Commit(nil)
		if err != nil {
			r.err = true
			return
		}
		s.versions[len(s.versions)-1] = h
		if err := s.nodedb.Commit(h, false); err != nil {
			r.err = true
			return
		}
		s.nodedb = trie.NewDatabase(s.disk)
		t, err := trie.NewTrie(h, s.nodedb)
		if err != nil {
			r.err = true
			return
		}
		s.t = t
		r.res = trieutil.Hex(h[:])
	case "L":
		s.t.SetCacheLimit(uint16(c.V))
	case "P": // NodeDatabase.Cap: flush the oldest cached nodes to disk and drop them from memory
		// V = 0: limit 0 (everything); V = m > 0: the limit that makes Cap flush exactly the m oldest
		// nodes of the flush-list (sizes and order read by reflection)
		r.err = s.nodedb.Cap(limitFlushing(s.nodedb, c.V)) != nil
	default:
		vutil.Fatalf("unknown op %q", c.Op)
	}
	return
}

// limitFlushing computes the Cap limit under which exactly the m oldest cached nodes are flushed
// (Cap flushes while size > limit, each node reducing size by 3*HashLength + its blob size).
func limitFlushing(ndb *trie.NodeDatabase, m int) common.StorageSize {
	if m <= 0 {
		return 0
	}
	size, _ := ndb.Size()
	v := reflect.ValueOf(ndb).Elem()
	nodes := v.FieldByName("nodes")
	cur := v.FieldByName("oldest")
	toHash := func(a reflect.Value) (h common.Hash) {
		for i := 0; i < len(h); i++ {
			h[i] = byte(a.Index(i).Uint())
		}
		return
	}
	h := toHash(cur)
	for i := 0; i < m && h != (common.Hash{}); i++ {
		e := nodes.MapIndex(reflect.ValueOf(h))
		if !e.IsValid() || e.IsNil() {
			break
		}
		size -= common.StorageSize(3*common.HashLength + int(e.Elem().FieldByName("size").Uint()))
		h = toHash(e.Elem().FieldByName("flushNext"))
	}
	if size < 0 {
		size = 0
	}
	return size
}

func replay(ops []call) *subject {
	s := newSubject()
	for _, c := range ops {
		s.apply(c)
	}
	return s
}

// ------------------------------------------------------------- the projection

// spec-shaped node: ["N"] | ["V", id] | ["S", [nibbles], child] | ["F", [17 children]]
func specNode(n *trieutil.Node) interface{} {
	if n == nil {
		return []interface{}{"N"}
	}
	switch n.Kind {
	case 'V':
		return []interface{}{"V", valID(n.Val)}
	case 'S':
		return []interface{}{"S", ints(n.Key), specNode(n.Child)}
	case 'F':
		ch := make([]interface{}, 17)
		for i := range ch {
			ch[i] = specNode(n.Ch[i])
		}
		return []interface{}{"F", ch}
	}
	return []interface{}{"?"}
}

// hashedPaths lists, in pre-order, the paths of the nodes stored under their own hash.
func hashedPaths(n *trieutil.Node, path []byte, out *[]interface{}) {
	if n == nil || n.Kind == 'V' {
		return
	}
	if n.Hashed {
		*out = append(*out, ints(path))
	}
	if n.Kind == 'S' {
		hashedPaths(n.Child, append(append([]byte{}, path...), n.Key...), out)
		return
	}
	for i := 0; i < 17; i++ {
		hashedPaths(n.Ch[i], append(append([]byte{}, path...), byte(i)), out)
	}
}

// memNode reads the in-memory node graph of the real trie by reflection
// (nothing is called on the trie, so nothing is resolved, cached or hashed);
// hash nodes are expanded through the NodeDatabase with trieutil's decoder.
func memNode(v reflect.Value, get trieutil.Resolver) (*trieutil.Node, error) {
	if v.Kind() == reflect.Interface {
		if v.IsNil() {
			return nil, nil
		}
		v = v.Elem()
	}
	switch v.Type().String() {
	case "*trie.shortNode":
		e := v.Elem()
		key := append([]byte{}, e.FieldByName("Key").Bytes()...)
		c, err := memNode(e.FieldByName("Val"), get)
		if err != nil {
			return nil, err
		}
		return &trieutil.Node{Kind: 'S', Key: key, Child: c}, nil
	case "*trie.fullNode":
		n := &trieutil.Node{Kind: 'F'}
		ch := v.Elem().FieldByName("Children")
		for i := 0; i < 17; i++ {
			c, err := memNode(ch.Index(i), get)
			if err != nil {
				return nil, err
			}
			n.Ch[i] = c
		}
		return n, nil
	case "trie.valueNode":
		return &trieutil.Node{Kind: 'V', Val: append([]byte{}, v.Bytes()...)}, nil
	case "trie.hashNode":
		return trieutil.DecodeStored(append([]byte{}, v.Bytes()...), get)
	}
	return nil, fmt.Errorf("unexpected in-memory node type %s", v.Type())
}

// stage runs one observation; a panic of the real code is recorded, not propagated.
func stage(p map[string]interface{}, name string, f func()) {
	defer func() {
		if r := recover(); r != nil {
			p["panic"] = p["panic"].(string) + name + ": " + fmt.Sprint(r) + "; "
		}
	}()
	f()
}

func project(s *subject) map[string]interface{} {
	p := map[string]interface{}{"panic": "", "memOK": false, "mem": specNode(nil), "hash": "none", "gets": make([]int, nKeys),
		"iter": []interface{}{}, "iterErr": true, "nit": []interface{}{}, "nitErr": true, "commit": "none", "commitErr": true,
		"storedOK": false, "tree": specNode(nil), "hashed": []interface{}{}, "ref": "undecodable", "fresh": "none",
		"vsame": []interface{}{}, "vsameIter": []interface{}{}, "vfresh": []interface{}{}, "vroot": []bool{}}
	get := func(h []byte) ([]byte, bool) {
		b, err := s.nodedb.Node(common.BytesToHash(h))
		return b, err == nil && len(b) > 0
	}
	// 1. the in-memory graph, before anything is called on the trie
	stage(p, "mem", func() {
		mem, err := memNode(reflect.ValueOf(s.t).Elem().FieldByName("root"), get)
		if err != nil {
			p["memErr"] = err.Error()
			return
		}
		p["memOK"] = true
		p["mem"] = specNode(mem)
	})
	// 2. Hash
	stage(p, "Hash", func() {
		h := s.t.Hash()
		p["hash"] = trieutil.Hex(h[:])
	})
	// 3. TryGet of every key of the universe
	gets := make([]int, nKeys)
	pairs := map[int]int{}
	for k := 1; k <= nKeys; k++ {
		gets[k-1] = failed
		stage(p, "TryGet", func() {
			v, err := s.t.TryGet(keyBytes[k])
			if err != nil {
				return
			}
			gets[k-1] = valID(v)
			if len(v) != 0 {
				pairs[k] = gets[k-1]
			}
		})
	}
	p["gets"] = gets
	// 4. iteration: key/value pairs and the node sequence
	stage(p, "Iterator", func() {
		iter := make([]interface{}, 0)
		it := trie.NewIterator(s.t.NodeIterator(nil))
		for it.Next() {
			iter = append(iter, []int{keyID(it.Key), valID(it.Value)})
		}
		p["iter"] = iter
		p["iterErr"] = it.Err != nil
	})
	stage(p, "NodeIterator", func() {
		nit := make([]interface{}, 0)
		ni := s.t.NodeIterator(nil)
		for ni.Next(true) {
			// <<length of the path, its last nibble (99: empty path), leaf, stored under its own hash>>
			path, last := ni.Path(), 99
			if len(path) > 0 {
				last = int(path[len(path)-1])
			}
			nit = append(nit, []interface{}{len(path), last, ni.Leaf(), ni.Hash() != (common.Hash{})})
		}
		p["nit"] = nit
		p["nitErr"] = ni.Error() != nil
	})
	// 5. Commit and read the stored structure back with independent primitives
	// 6. digest of that structure under the independent encoder
	stage(p, "Commit", func() {
		root, err := s.t.Commit(nil)
		p["commit"] = trieutil.Hex(root[:])
		p["commitErr"] = err != nil
		var stored *trieutil.Node
		if !bytes.Equal(root[:], trieutil.EmptyRoot) {
			stored, err = trieutil.DecodeStored(root[:], get)
			if err != nil {
				p["storedErr"] = err.Error()
				return
			}
		}
		p["storedOK"] = true
		p["tree"] = specNode(stored)
		hp := make([]interface{}, 0)
		hashedPaths(stored, nil, &hp)
		p["hashed"] = hp
		p["ref"] = trieutil.Hex(trieutil.Root(stored))
	})
	// 7. every version the history committed, re-opened on the same NodeDatabase and on a fresh
	//    NodeDatabase over the same disk store: lookups of all keys, iteration
	vsame, vsameIter, vfresh, vroot := []interface{}{}, []interface{}{}, []interface{}{}, []bool{}
	readVersion := func(root common.Hash, ndb *trie.NodeDatabase) ([]int, []interface{}) {
		gets := make([]int, nKeys)
		for i := range gets {
			gets[i] = failed
		}
		pairs := []interface{}{[]int{failed, failed}}
		func() {
			defer func() { recover() }()
			if root == (common.Hash{}) {
				return
			}
			t, err := trie.NewTrie(root, ndb)
			if err != nil {
				return
			}
			for k := 1; k <= nKeys; k++ {
				if v, err := t.TryGet(keyBytes[k]); err == nil {
					gets[k-1] = valID(v)
				}
			}
			ps := []interface{}{}
			it := trie.NewIterator(t.NodeIterator(nil))
			for it.Next() {
				ps = append(ps, []int{keyID(it.Key), valID(it.Value)})
			}
			if it.Err == nil {
				pairs = ps
			}
		}()
		return gets, pairs
	}
	for _, root := range s.versions {
		g, it := readVersion(root, s.nodedb)
		vsame, vsameIter = append(vsame, g), append(vsameIter, it)
		g2, _ := readVersion(root, trie.NewDatabase(s.disk))
		vfresh = append(vfresh, g2)
		onDisk, _ := s.disk.Has(root[:]) // the version's root node is in the disk store (whatever put it there)
		vroot = append(vroot, onDisk)
	}
	p["vsame"], p["vsameIter"], p["vfresh"], p["vroot"] = vsame, vsameIter, vfresh, vroot
	// 8. the real root of a fresh real trie holding the observed pairs, sorted inserts
	stage(p, "fresh", func() {
		f := newSubject()
		ks := make([]int, 0, len(pairs))
		for k := range pairs {
			ks = append(ks, k)
		}
		sort.Slice(ks, func(i, j int) bool { return bytes.Compare(keyBytes[ks[i]], keyBytes[ks[j]]) < 0 })
		for _, k := range ks {
			if pairs[k] <= nVals {
				f.t.TryUpdate(keyBytes[k], valBytes[pairs[k]])
			}
		}
		fh := f.t.Hash()
		p["fresh"] = trieutil.Hex(fh[:])
	})
	return p
}

type history struct {
	// "full": Reset, then every call of ops observed in sequence;
	// "fan":  Reset at the state reached by prefix, then every call of ops observed FROM THAT STATE
	//         (the edges of one model state: they share the call path that reaches it)
	// "bulk": a family of N random 8-byte keys with 33-byte values, so that ONE NodeDatabase.Commit
	//         carries several IdealBatchSize of nodes (see bulk below)
	Mode   string `json:"mode"`
	Prefix []call `json:"prefix"`
	Ops    []call `json:"ops"`
	N      int    `json:"n"`
	Salt   int64  `json:"salt"`
}

// bulk builds a large trie on the real code, commits it with one Trie.Commit + one
// NodeDatabase.Commit, re-opens the root on a fresh NodeDatabase over the same disk store and
// reports what that reload answers; then a second version (a third of the keys rewritten, a third
// deleted) the same way.  The key/value pairs are the input; nothing else is expected here.
func bulk(n int, salt int64) []map[string]interface{} {
	rng := vutil.Rng(2000 + salt)
	s := newSubject()
	type pair struct{ k, v []byte }
	content := map[string][]byte{}
	randVal := func() []byte {
		v := make([]byte, 33)
		rng.Read(v)
		return v
	}
	for len(content) < n {
		k := make([]byte, 8)
		rng.Read(k)
		content[string(k)] = randVal()
	}
	out := []map[string]interface{}{}
	phase := func(name string) {
		ev := map[string]interface{}{"phase": name, "n": len(content), "panic": "", "commitErr": true, "flushErr": true, "openErr": true,
			"missing": -1, "wrong": -1, "iterated": -1, "ascending": false, "iterWrong": -1,
			"rootLive": "none", "rootReload": "none", "ref": "undecodable", "fresh": "none", "diskNodes": 0}
		defer func() {
			if p := recover(); p != nil {
				ev["panic"] = fmt.Sprint(p)
			}
			out = append(out, ev)
		}()
		root, err := s.t.Commit(nil)
		ev["commitErr"] = err != nil
		ev["rootLive"] = trieutil.Hex(root[:])
		ev["flushErr"] = s.nodedb.Commit(root, false) != nil // one commit carrying every new node
		ev["diskNodes"] = s.disk.Len()
		fresh := trie.NewDatabase(s.disk)
		t, err := trie.NewTrie(root, fresh)
		ev["openErr"] = err != nil
		if err != nil {
			return
		}
		missing, wrong := 0, 0
		for k, v := range content {
			got, err := t.TryGet([]byte(k))
			if err != nil || len(got) == 0 {
				missing++
			} else if !bytes.Equal(got, v) {
				wrong++
			}
		}
		ev["missing"], ev["wrong"] = missing, wrong
		it := trie.NewIterator(t.NodeIterator(nil))
		count, iterWrong, asc := 0, 0, true
		var prev []byte
		for it.Next() {
			if v, ok := content[string(it.Key)]; !ok || !bytes.Equal(v, it.Value) {
				iterWrong++
			}
			if prev != nil && bytes.Compare(prev, it.Key) >= 0 {
				asc = false
			}
			prev = append([]byte{}, it.Key...)
			count++
		}
		ev["iterated"], ev["iterWrong"], ev["ascending"] = count, iterWrong, asc && it.Err == nil
		h := t.Hash()
		ev["rootReload"] = trieutil.Hex(h[:])
		// digest of the structure found on disk under the independent primitives
		if stored, err := trieutil.DecodeStored(root[:], func(h []byte) ([]byte, bool) {
			b, err := s.disk.Get(h)
			return b, err == nil && len(b) > 0
		}); err == nil {
			ev["ref"] = trieutil.Hex(trieutil.Root(stored))
		}
		// the root of a fresh real trie filled in sorted order
		ks := make([]string, 0, len(content))
		for k := range content {
			ks = append(ks, k)
		}
		sort.Strings(ks)
		f := newSubject()
		for _, k := range ks {
			f.t.TryUpdate([]byte(k), content[k])
		}
		fh := f.t.Hash()
		ev["fresh"] = trieutil.Hex(fh[:])
		// go on from the reloaded state, as a restarted node would
		s.nodedb, s.t = fresh, t
	}
	for k, v := range content {
		s.t.TryUpdate([]byte(k), v)
	}
	phase("insert")
	i := 0
	for k := range content {
		switch i % 3 {
		case 0:
			v := randVal()
			content[k] = v
			s.t.TryUpdate([]byte(k), v)
		case 1:
			delete(content, k)
			s.t.TryDelete([]byte(k))
		}
		i++
	}
	phase("rewrite-and-delete")
	return out
}

func opsJSON(ops []call) []interface{} {
	out := make([]interface{}, len(ops))
	for i, c := range ops {
		out[i] = []interface{}{c.Op, c.K, c.V}
	}
	return out
}

func main() {
	out := flag.String("out", "trace.ndjson", "trace file")
	script := flag.String("script", "", "JSON file: list of histories generated by TLC")
	corrupt := flag.String("corrupt", "", "sensitivity exercise: corrupt this logged field of every 997th event (hash|gets|iter|tree)")
	flag.Parse()
	if err := trieutil.SelfTest(); err != nil {
		vutil.Fatalf("self-test of the independent primitives failed: %v", err)
	}
	initUniverse()
	var histories []history
	b, err := os.ReadFile(*script)
	if err != nil {
		vutil.Fatalf("read script: %v", err)
	}
	if err := json.Unmarshal(b, &histories); err != nil {
		vutil.Fatalf("parse script: %v", err)
	}
	tr := vutil.NewTrace(*out)
	emit := func(ev map[string]interface{}) {
		if *corrupt != "" && tr.N%997 == 3 {
			p := ev["proj"].(map[string]interface{})
			switch *corrupt {
			case "hash":
				p["hash"] = "00" + p["hash"].(string)[2:]
			case "gets":
				g := p["gets"].([]int)
				g[2] = (g[2] + 1) % 3
			case "iter":
				if it := p["iter"].([]interface{}); len(it) > 1 {
					it[0], it[1] = it[1], it[0]
				}
			case "tree":
				p["tree"] = []interface{}{"S", []int{1, 16}, []interface{}{"V", 1}}
			}
		}
		tr.Emit(ev)
	}
	keys := make([]interface{}, nKeys)
	vlen := make([]int, nVals)
	vfirst := make([]int, nVals)
	for k := 1; k <= nKeys; k++ {
		keys[k-1] = ints(trieutil.KeyToHex(keyBytes[k]))
	}
	for v := 1; v <= nVals; v++ {
		vlen[v-1] = len(valBytes[v])
		vfirst[v-1] = int(valBytes[v][0])
	}
	calls := 0
	base := func(event string, c call, r result) map[string]interface{} {
		return map[string]interface{}{"event": event, "k": c.K, "v": c.V, "got": r.got, "res": r.res, "err": r.err, "panicked": r.panicked,
			"ops": []interface{}{}, "keys": []interface{}{}, "vlen": []int{}, "vfirst": []int{}, "fan": false}
	}
	for n, h := range histories {
		if h.Mode == "bulk" {
			for _, b := range bulk(h.N, h.Salt) {
				ev := base("Bulk", call{}, result{})
				ev["fan"] = true
				ev["bulk"] = b
				ev["proj"] = map[string]interface{}{}
				emit(ev)
				calls += h.N
			}
			continue
		}
		fan := h.Mode == "fan"
		ev := base("Reset", call{}, result{})
		if n == 0 {
			ev["keys"], ev["vlen"], ev["vfirst"] = keys, vlen, vfirst
		}
		ev["ops"] = opsJSON(h.Prefix)
		ev["proj"] = project(replay(h.Prefix))
		emit(ev)
		for i := range h.Ops {
			pre := h.Prefix
			if !fan {
				pre = append(append([]call{}, h.Prefix...), h.Ops[:i]...)
			}
			s := replay(pre)
			r := s.apply(h.Ops[i])
			calls += len(pre) + 1
			ev := base(h.Ops[i].Op, h.Ops[i], r)
			ev["fan"] = fan
			ev["proj"] = project(s)
			emit(ev)
		}
	}
	tr.Close()
	fmt.Printf("c02: histories=%d calls=%d events=%d\n", len(histories), calls, tr.N)
}
