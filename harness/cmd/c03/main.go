// c03 commits blocks' worth of account / storage / code mutations through the
// real account.AccountDB + trie.NodeDatabase on top of a *recording*
// xdb.Database and emits, for spec/TrieCommitTrace.tla:
//
//	Write     one physical write to the disk store (each Batch.Write is one
//	          event; direct Put / Delete would be events too): the node ids
//	          written and, per node, the ids it references, extracted by
//	          decoding the stored blobs with trieutil's own RLP splitter
//	Committed NodeDatabase.Commit(root) returned nil
//	Reopen    fault enumeration on the real code: a fresh MemDatabase holding
//	          exactly the first k writes is opened by a fresh
//	          account.NewDatabase / NewAccountDB for every state root produced
//	          so far; everything is walked (accounts, nonces, balances, code,
//	          every storage slot, full node iteration of every trie) and
//	          compared with what the live AccountDB answered before that root
//	          was committed.
//
// No source hook is used: account.NewDatabase takes the xdb.Database interface.
package main

import (
	"bytes"
	"errors"
	"flag"
	"fmt"
	"math/big"
	"math/rand"
	"os"
	"path/filepath"

	"com.tuntun.rangers/node/src/common"
	"com.tuntun.rangers/node/src/middleware/db"
	"com.tuntun.rangers/node/src/storage/account"
	"com.tuntun.rangers/node/src/storage/trie"
	"github.com/syndtr/goleveldb/leveldb/iterator"
	"golang.org/x/crypto/sha3"
	"verif/harness/internal/trieutil"
	"verif/harness/internal/vutil"
)

// ------------------------------------------------------- the recording store

type kv struct{ k, v []byte }

type write struct {
	kind string // "batch" | "put" | "delete"
	kvs  []kv
}

type recDB struct {
	inner *db.MemDatabase
	log   []write
	// fault injection: the failAt-th Batch.Write of this store returns an error and nothing of
	// that batch reaches the store (a transient I/O error: the process goes on)
	failAt, nWrites int
	failed          bool
}

var errInjected = errors.New("injected write failure")

func (r *recDB) Put(k, v []byte) error {
	r.log = append(r.log, write{"put", []kv{{common.CopyBytes(k), common.CopyBytes(v)}}})
	return r.inner.Put(k, v)
}
func (r *recDB) Get(k []byte) ([]byte, error) { return r.inner.Get(k) }
func (r *recDB) Has(k []byte) (bool, error)   { return r.inner.Has(k) }
func (r *recDB) Delete(k []byte) error {
	r.log = append(r.log, write{"delete", []kv{{common.CopyBytes(k), nil}}})
	return r.inner.Delete(k)
}
func (r *recDB) Close()                         {}
func (r *recDB) NewBatch() db.Batch             { return &recBatch{db: r} }
func (r *recDB) NewIterator() iterator.Iterator { panic("not supported") }
func (r *recDB) NewIteratorWithPrefix(prefix []byte) iterator.Iterator {
	panic("not supported")
}

type recBatch struct {
	db   *recDB
	kvs  []kv
	size int
}

func (b *recBatch) Put(k, v []byte) error {
	b.kvs = append(b.kvs, kv{common.CopyBytes(k), common.CopyBytes(v)})
	b.size += len(v)
	return nil
}
func (b *recBatch) Delete(k []byte) error { panic("not supported") }
func (b *recBatch) ValueSize() int        { return b.size }
func (b *recBatch) Reset()                { b.kvs, b.size = nil, 0 }
func (b *recBatch) Write() error {
	b.db.nWrites++
	if b.db.nWrites == b.db.failAt {
		b.db.failed = true
		b.db.log = append(b.db.log, write{"failed", append([]kv{}, b.kvs...)})
		return errInjected
	}
	b.db.log = append(b.db.log, write{"batch", append([]kv{}, b.kvs...)})
	for _, e := range b.kvs {
		b.db.inner.Put(e.k, e.v)
	}
	return nil
}

// ------------------------------------------------------------- the workload

var (
	token    = common.Address{}
	sha3Null = sha3.Sum256(nil)
)

type universe struct {
	// every 10th account is a contract that never gets a storage slot of its own (its
	// balance lives in the token contract's storage): code, nonce and balance only
	codeOnly map[int]bool
	subset   []int // when set, mutate only touches these accounts (disjoint sibling states)
	addrs    []common.Address
	keys     [][]byte
	vals     [][]byte
	codes    [][]byte
}

func mkUniverse(rng *rand.Rand, nAcc, nKeys int) *universe {
	u := &universe{codeOnly: map[int]bool{}}
	for i := 3; i < nAcc; i += 10 {
		u.codeOnly[i] = true
	}
	seenAddr := map[common.Address]bool{token: true}
	for len(u.addrs) < nAcc {
		var a common.Address
		rng.Read(a[:])
		if i := len(u.addrs); i%7 == 0 && i > 0 { // long shared prefixes between addresses
			copy(a[:], u.addrs[i-1][:])
			a[19] ^= byte(1 + rng.Intn(255))
		}
		if !seenAddr[a] {
			seenAddr[a] = true
			u.addrs = append(u.addrs, a)
		}
	}
	seenKey := map[string]bool{}
	addKey := func(k []byte) bool {
		if seenKey[string(k)] {
			return false
		}
		seenKey[string(k)] = true
		u.keys = append(u.keys, k)
		return true
	}
	for len(u.keys) < nKeys {
		k := make([]byte, 1+rng.Intn(40))
		rng.Read(k)
		if addKey(k) && len(u.keys)%5 == 2 { // followed by a key it is a prefix of
			addKey(append(append([]byte{}, k...), byte(rng.Intn(256))))
		}
	}
	for i := 0; i < 24; i++ {
		v := make([]byte, 1+rng.Intn(80))
		rng.Read(v)
		v[0] &= 0x7f // never looks like an RLP list
		if v[0] == 0 {
			v[0] = 1
		}
		u.vals = append(u.vals, v)
	}
	for i := 0; i < 6; i++ {
		c := make([]byte, 20+rng.Intn(3000))
		rng.Read(c)
		c[0] = 0x60
		u.codes = append(u.codes, c)
	}
	return u
}

// snapshot of what the live AccountDB answers (the expected content of a root)
type acctSnap struct {
	exist bool
	nonce uint64
	bal   string
	code  string
	slots []string
}

func snapshot(s *account.AccountDB, u *universe) []acctSnap {
	out := make([]acctSnap, len(u.addrs))
	for i, a := range u.addrs {
		sn := acctSnap{exist: s.Exist(a), nonce: s.GetNonce(a), bal: s.GetBalance(a).String(), code: string(s.GetCode(a))}
		sn.slots = make([]string, len(u.keys))
		for j, k := range u.keys {
			sn.slots[j] = string(s.GetData(a, k))
		}
		out[i] = sn
	}
	return out
}

func mutate(s *account.AccountDB, u *universe, rng *rand.Rand, n int, sharing bool) map[string]int {
	kinds := map[string]int{}
	for i := 0; i < n; i++ {
		ai := rng.Intn(len(u.addrs))
		if u.subset != nil {
			ai = u.subset[rng.Intn(len(u.subset))]
		}
		a := u.addrs[ai]
		if u.codeOnly[ai] {
			switch r := rng.Intn(100); {
			case r < 45: // code that no other account has
				c := make([]byte, 20+rng.Intn(300))
				rng.Read(c)
				c[0] = 0x60
				s.SetCode(a, c)
				kinds["CodeOnlyUniqueCode"]++
			case r < 65: // code shared with accounts that do have storage
				s.SetCode(a, u.codes[rng.Intn(len(u.codes))])
				kinds["CodeOnlySharedCode"]++
			case r < 80:
				s.SetNonce(a, uint64(rng.Intn(50)))
				kinds["SetNonce"]++
			default:
				s.AddBalance(a, big.NewInt(int64(1+rng.Intn(1000))))
				kinds["AddBalance"]++
			}
			continue
		}
		switch r := rng.Intn(100); {
		case r < 55:
			var v []byte
			if rng.Intn(12) != 0 {
				v = u.vals[rng.Intn(len(u.vals))]
			}
			s.SetData(a, u.keys[rng.Intn(len(u.keys))], v)
			kinds["SetData"]++
		case r < 70:
			s.AddBalance(a, big.NewInt(int64(1+rng.Intn(1000))))
			kinds["AddBalance"]++
		case r < 80:
			s.SetNonce(a, uint64(rng.Intn(50)))
			kinds["SetNonce"]++
		case r < 86:
			s.SetCode(a, u.codes[rng.Intn(len(u.codes))]) // few blobs: code shared between accounts
			kinds["SetCode"]++
		case r < 92 && sharing:
			// identical storage in two accounts: hash-identical storage tries
			b := u.addrs[rng.Intn(len(u.addrs))]
			for _, k := range u.keys {
				s.SetData(a, k, s.GetData(b, k))
			}
			kinds["CloneStorage"]++
		case r < 94:
			s.Suicide(a)
			kinds["Suicide"]++
		case r < 97:
			// a failed inner call in the middle of the block: a slot written earlier in the block is
			// written again (with other slots, a balance, the nonce) inside a snapshot that is reverted
			k := u.keys[rng.Intn(len(u.keys))]
			s.SetData(a, k, u.vals[rng.Intn(len(u.vals))])
			s.AddBalance(a, big.NewInt(int64(1+rng.Intn(50))))
			id := s.Snapshot()
			var v2 []byte
			if rng.Intn(4) != 0 {
				v2 = u.vals[rng.Intn(len(u.vals))]
			}
			s.SetData(a, k, v2)
			s.SetData(a, u.keys[rng.Intn(len(u.keys))], u.vals[rng.Intn(len(u.vals))])
			s.AddBalance(a, big.NewInt(int64(1+rng.Intn(50))))
			s.SetNonce(a, uint64(rng.Intn(50)))
			s.RevertToSnapshot(id)
			kinds["RevertedScope"]++
		default:
			s.CreateAccount(a)
			kinds["CreateAccount"]++
		}
	}
	return kinds
}

// ------------------------------------------------ decoding the stored blobs

// ids: every hash that is ever written gets the number of its first write (1, 2, 3, ... in
// write order, so the new nodes of one write are consecutive); hashes that are referenced but
// never written get numbers above all of those.
type ids struct {
	of   map[string]int
	next int
}

func (m *ids) known(h []byte) (int, bool) {
	v, ok := m.of[string(h)]
	return v, ok
}

func (m *ids) id(h []byte) int {
	if v, ok := m.of[string(h)]; ok {
		return v
	}
	m.next++
	m.of[string(h)] = m.next
	return m.next
}

// refs lists what a stored blob references: child nodes of a trie node and, for
// an account leaf, its storage root and code.  ok=false: not a trie node (code).
func refs(blob []byte) (out [][]byte, isNode bool) {
	items, err := trieutil.DecodeList(blob)
	if err != nil || (len(items) != 2 && len(items) != 17) {
		return nil, false
	}
	var walk func(items [][]byte) bool
	ref := func(item []byte) bool {
		kind, content, _, err := trieutil.Split(item)
		if err != nil {
			return false
		}
		if kind == trieutil.KindList {
			sub, err := trieutil.Items(content)
			if err != nil {
				return false
			}
			return walk(sub)
		}
		if len(content) == 32 {
			out = append(out, content)
			return true
		}
		return len(content) == 0
	}
	walk = func(items [][]byte) bool {
		switch len(items) {
		case 2:
			kb, err := trieutil.DecodeStr(items[0])
			if err != nil {
				return false
			}
			key, err := trieutil.CompactToHex(kb)
			if err != nil {
				return false
			}
			if !trieutil.HasTerm(key) {
				return ref(items[1])
			}
			v, err := trieutil.DecodeStr(items[1])
			if err != nil {
				return false
			}
			// an account leaf {Nonce, Root, code hash}
			if acc, err := trieutil.DecodeList(v); err == nil && len(acc) == 3 {
				root, e1 := trieutil.DecodeStr(acc[1])
				code, e2 := trieutil.DecodeStr(acc[2])
				if e1 == nil && e2 == nil && len(root) == 32 && len(code) == 32 {
					if !bytes.Equal(root, trieutil.EmptyRoot) {
						out = append(out, root)
					}
					if !bytes.Equal(code, sha3Null[:]) && !bytes.Equal(code, trieutil.Keccak(nil)) {
						out = append(out, code)
					}
				}
			}
			return true
		case 17:
			for i := 0; i < 16; i++ {
				if !ref(items[i]) {
					return false
				}
			}
			_, err := trieutil.DecodeStr(items[16])
			return err == nil
		}
		return false
	}
	if !walk(items) {
		return nil, false
	}
	return out, true
}

// ------------------------------------------------------------ the re-opening

type rootInfo struct {
	hash common.Hash
	snap []acctSnap
}

// reopen opens root from a store holding exactly the writes made so far (mem is only read:
// a fresh account.NewDatabase / NodeDatabase with empty caches sits on top of it) and walks everything.
func reopen(mem *db.MemDatabase, root rootInfo, u *universe) (present, resolvable, contentOK bool, pairs int, why string) {
	present, _ = mem.Has(root.hash[:])
	if !present {
		return false, false, false, 0, ""
	}
	defer func() {
		if p := recover(); p != nil {
			resolvable, contentOK, why = false, false, fmt.Sprintf("panic: %v", p)
		}
	}()
	adb := account.NewDatabase(mem)
	s, err := account.NewAccountDB(root.hash, adb)
	if err != nil {
		return true, false, false, 0, "open: " + err.Error()
	}
	resolvable, contentOK = true, true
	note := func(res *bool, format string, a ...interface{}) {
		*res = false
		if why == "" {
			why = fmt.Sprintf(format, a...)
		}
	}
	// every node of the account trie and of every storage trie resolves
	at, err := trie.NewTrie(root.hash, adb.TrieDB())
	if err != nil {
		return true, false, false, 0, "account trie: " + err.Error()
	}
	ni := at.NodeIterator(nil)
	for ni.Next(true) {
	}
	if ni.Error() != nil {
		note(&resolvable, "account trie walk: %v", ni.Error())
	}
	for i, a := range u.addrs {
		want := root.snap[i]
		if s.Exist(a) != want.exist {
			note(&contentOK, "account %x exist=%v", a[:], !want.exist)
		}
		if s.GetNonce(a) != want.nonce {
			note(&contentOK, "account %x nonce", a[:])
		}
		if s.GetBalance(a).String() != want.bal {
			note(&contentOK, "account %x balance %s want %s", a[:], s.GetBalance(a), want.bal)
		}
		if string(s.GetCode(a)) != want.code {
			note(&contentOK, "account %x code", a[:])
		}
		live := 0
		for j, k := range u.keys {
			if string(s.GetData(a, k)) != want.slots[j] {
				note(&contentOK, "account %x slot %x", a[:], k)
			}
			if want.slots[j] != "" {
				live++
			}
		}
		if want.exist {
			it := s.DataIterator(a, nil)
			n := 0
			for it != nil && it.Next() {
				n++
			}
			if it != nil && it.Err != nil {
				note(&resolvable, "storage walk of %x: %v", a[:], it.Err)
			}
			if n != live {
				note(&contentOK, "account %x iterates %d slots, %d written", a[:], n, live)
			}
			pairs += n
		}
	}
	if s.Error() != nil {
		note(&resolvable, "db error: %v", s.Error())
	}
	return
}

// sibPlan: after the parent block is committed and persisted, n sibling states are built on the
// parent root through real AccountDBs and AccountDB.Commit-ed in order 0..n-1 (their nodes enter the
// shared NodeDatabase memory layer); then NodeDatabase.Commit is called for the roots in the order
// persist (an index may repeat: a retry).  variant 0: siblings touch disjoint accounts, 1: the same
// accounts, 2: siblings 0 and 1 are identical (one root).  failFirst: the first physical write of
// the persist phase returns an error (the process goes on with the next entry of persist).
type sibPlan struct {
	n, variant int
	persist    []int
	failFirst  bool
}

func main() {
	out := flag.String("out", "trace.ndjson", "trace file")
	scratch := flag.String("scratch", "", "scratch directory (cwd of the process)")
	histories := flag.Int("histories", 1, "number of histories")
	blocks := flag.Int("blocks", 4, "blocks per history")
	muts := flag.Int("mutations", 2500, "mutations per block")
	nAcc := flag.Int("accounts", 300, "accounts")
	nKeys := flag.Int("keys", 14, "storage keys per account")
	salt := flag.Int64("salt", 0, "seed salt (shard)")
	faultRuns := flag.Int("faultruns", 0, "for the first N histories: re-run once per physical write with that write returning an error")
	siblingRuns := flag.Int("siblingruns", 0, "for the first N histories: sibling states on one parent, persisted in every order")
	corrupt := flag.String("corrupt", "", "sensitivity exercise: child (drop a logged child id) | content (flip a reopen verdict)")
	flag.Parse()
	if *scratch == "" {
		vutil.Fatalf("--scratch required")
	}
	if err := trieutil.SelfTest(); err != nil {
		vutil.Fatalf("self-test of the independent primitives failed: %v", err)
	}
	outAbs, _ := filepath.Abs(*out)
	os.MkdirAll(*scratch, 0755)
	if err := os.Chdir(*scratch); err != nil {
		vutil.Fatalf("chdir: %v", err)
	}
	common.Init(0, "x.ini", "dev")
	account.Init()
	tr := vutil.NewTrace(outAbs)
	totalWrites, totalNodes, totalReopens, maxBatches, nAborted := 0, 0, 0, 0, 0
	nFailed, nAfterFailure, nSiblingPersists := 0, 0, 0
	kindsAll := map[string]int{}
	// runHistory executes one history (the same one for the same h: its randomness derives from
	// (VERIF_SEED, salt, h)) and emits its events.
	//   failAt = 0: no fault; after EVERY physical write every root so far is re-opened (crash prefixes).
	//   failAt = k: the k-th physical write returns an error and the process goes on - retry = true:
	//               NodeDatabase.Commit is called again for the same root; retry = false: the next block
	//               is built on top of the root whose commit failed and committed.  Roots whose commit
	//               reported success are re-opened from the store after every reported success.
	// It returns the number of physical writes attempted.
	runHistory := func(h int, failAt int, retry bool, sib *sibPlan) int {
		rng := vutil.Rng(3000 + *salt*100003 + int64(h))
		sharing := h%2 == 1 || *histories == 1
		u := mkUniverse(rng, *nAcc, *nKeys)
		inner, _ := db.NewMemDatabase()
		rec := &recDB{inner: inner, failAt: failAt}
		adb := account.NewDatabase(rec)
		type reopened struct {
			hash                           common.Hash
			block                          int
			present, resolvable, contentOK bool
			pairs                          int
			why                            string
		}
		type step struct {
			w         *write     // a physical write ...
			reopens   []reopened // ... and the re-opening of every root so far after it
			committed *common.Hash
		}
		var steps []step
		var roots []rootInfo
		crash, _ := db.NewMemDatabase() // holds exactly the writes replayed so far
		prev := common.Hash{}
		done := 0
		// absorb: replay the writes made since the last call into `crash` (the store a restart would
		// find); without a fault every prefix is a crash point: every root so far is re-opened after
		// every write; a reported success is recorded and, in fault runs, followed by a re-opening.
		absorb := func(committedOK bool, root common.Hash) {
			// every prefix of the write sequence: replay it into `crash` and re-open every root so far
			for ; done < len(rec.log); done++ {
				w := &rec.log[done]
				if w.kind == "failed" {
					nFailed++
					steps = append(steps, step{w: w})
					continue
				}
				for _, e := range w.kvs {
					if w.kind == "delete" {
						crash.Delete(e.k)
					} else {
						crash.Put(e.k, e.v)
					}
				}
				st := step{w: w}
				for j, ri := range roots {
					if failAt > 0 {
						break // fault runs re-open after every reported success instead (below)
					}
					present, resolvable, contentOK, pairs, why := reopen(crash, ri, u)
					if *corrupt == "content" && present && (done+j)%5 == 0 {
						contentOK = false
					}
					st.reopens = append(st.reopens, reopened{ri.hash, j + 1, present, resolvable, contentOK, pairs, why})
					totalReopens++
				}
				steps = append(steps, st)
			}
			if committedOK {
				r := root
				steps = append(steps, step{committed: &r})
				if failAt > 0 {
					st := step{}
					for j, ri := range roots {
						present, resolvable, contentOK, pairs, why := reopen(crash, ri, u)
						st.reopens = append(st.reopens, reopened{ri.hash, j + 1, present, resolvable, contentOK, pairs, why})
						totalReopens++
					}
					steps = append(steps, st)
				}
			}
		}
		aborted := ""
		nblocks := *blocks
		if sib != nil {
			nblocks = 1 // the parent; the siblings follow below
		}
		for b := 0; b < nblocks && aborted == ""; b++ {
			// a failure of the real code to continue from its own committed state is an
			// observation (event Aborted), the writes so far are still judged
			s, err := account.NewAccountDB(prev, adb)
			if err != nil {
				aborted = fmt.Sprintf("block %d: NewAccountDB: %v", b+1, err)
				break
			}
			if b == 0 {
				s.SetNonce(token, 1)
			}
			for k, v := range mutate(s, u, rng, *muts, sharing) {
				kindsAll[k] += v
			}
			var snap []acctSnap
			var root common.Hash
			before := len(rec.log)
			func() {
				defer func() {
					if p := recover(); p != nil {
						aborted = fmt.Sprintf("block %d: panic: %v", b+1, p)
					}
				}()
				s.IntermediateRoot(true)
				snap = snapshot(s, u) // what is readable before the commit
				root, err = s.Commit(true)
				if err != nil {
					aborted = fmt.Sprintf("block %d: AccountDB.Commit: %v", b+1, err)
					return
				}
				err = adb.TrieDB().Commit(root, false)
				if err == errInjected && retry {
					err = adb.TrieDB().Commit(root, false) // the caller tries again
					nAfterFailure++
				}
				if err != nil && err != errInjected {
					aborted = fmt.Sprintf("block %d: NodeDatabase.Commit: %v", b+1, err)
				}
			}()
			if failAt > 0 && rec.failed && err == nil && aborted == "" && !retry {
				nAfterFailure++
			}
			if n := len(rec.log) - before; n > maxBatches {
				maxBatches = n
			}
			committedOK := aborted == "" && err == nil // false also when the injected failure was reported: not durable
			if committedOK {
				roots = append(roots, rootInfo{root, snap})
			}
			absorb(committedOK, root)
			if aborted == "" {
				prev = root // also after a reported failure: the node builds the next block on what it has in memory
			}
		}
		if sib != nil && aborted == "" {
			type sibling struct {
				root common.Hash
				snap []acctSnap
			}
			sibs := make([]sibling, 0, sib.n)
			func() {
				defer func() {
					if p := recover(); p != nil {
						aborted = fmt.Sprintf("siblings: panic: %v", p)
					}
				}()
				for i := 0; i < sib.n; i++ {
					s, err := account.NewAccountDB(prev, adb)
					if err != nil {
						aborted = fmt.Sprintf("sibling %d: NewAccountDB: %v", i, err)
						return
					}
					seedOf := i
					if sib.variant == 2 && i == 1 {
						seedOf = 0 // identical to sibling 0
					}
					srng := vutil.Rng(7000 + *salt*100003 + int64(h)*17 + int64(seedOf))
					u.subset = nil
					if sib.variant == 0 {
						for a := i; a < len(u.addrs); a += sib.n {
							u.subset = append(u.subset, a)
						}
					}
					for k, v := range mutate(s, u, srng, *muts/3, sharing) {
						kindsAll[k] += v
					}
					u.subset = nil
					s.IntermediateRoot(true)
					snap := snapshot(s, u)
					root, err := s.Commit(true) // into the shared memory layer, nothing persisted yet
					if err != nil {
						aborted = fmt.Sprintf("sibling %d: AccountDB.Commit: %v", i, err)
						return
					}
					sibs = append(sibs, sibling{root, snap})
				}
			}()
			if sib.failFirst {
				rec.failAt = rec.nWrites + 1
			}
			reported := map[common.Hash]bool{}
			for _, i := range sib.persist {
				if aborted != "" || i >= len(sibs) {
					break
				}
				var err error
				func() {
					defer func() {
						if p := recover(); p != nil {
							aborted = fmt.Sprintf("persist sibling %d: panic: %v", i, p)
						}
					}()
					err = adb.TrieDB().Commit(sibs[i].root, false)
				}()
				if err != nil && err != errInjected {
					aborted = fmt.Sprintf("persist sibling %d: %v", i, err)
				}
				ok := aborted == "" && err == nil
				if ok && !reported[sibs[i].root] {
					reported[sibs[i].root] = true
					roots = append(roots, rootInfo{sibs[i].root, sibs[i].snap})
					nSiblingPersists++
				} else if ok {
					ok = false // already recorded as durable (identical sibling / second call)
				}
				absorb(ok, sibs[i].root)
			}
		}
		// number the nodes in write order, then emit
		m := &ids{of: map[string]int{}}
		for _, st := range steps {
			if st.w != nil && st.w.kind != "delete" && st.w.kind != "failed" {
				for _, e := range st.w.kvs {
					m.id(e.k)
				}
			}
		}
		written := m.next
		empty := []interface{}{}
		tr.Emit(map[string]interface{}{"event": "Reset", "k": 0, "kind": "", "first": 1, "nodes": empty, "again": []int{}, "deleted": []int{},
			"root": 0, "roots": empty, "undecodable": 0, "written": written})
		seen := 0 // ids 1..seen have been written so far
		k := 0
		for _, st := range steps {
			if st.committed != nil {
				tr.Emit(map[string]interface{}{"event": "Committed", "k": k, "kind": "", "first": seen + 1, "nodes": empty, "again": []int{},
					"deleted": []int{}, "root": m.id(st.committed[:]), "roots": empty, "undecodable": 0, "written": written})
				continue
			}
			emitReopen := func() {
				rr := make([]interface{}, 0, len(st.reopens))
				for _, ro := range st.reopens {
					rr = append(rr, map[string]interface{}{"root": m.id(ro.hash[:]), "block": ro.block, "present": ro.present,
						"resolvable": ro.resolvable, "contentOK": ro.contentOK, "pairs": ro.pairs, "why": ro.why})
				}
				tr.Emit(map[string]interface{}{"event": "Reopen", "k": k, "kind": "", "first": seen + 1, "nodes": empty, "again": []int{},
					"deleted": []int{}, "root": 0, "roots": rr, "undecodable": 0, "written": written})
			}
			if st.w == nil { // fault runs: the re-opening after a reported success
				emitReopen()
				continue
			}
			if st.w.kind == "failed" {
				tr.Emit(map[string]interface{}{"event": "FailedWrite", "k": k + 1, "kind": "failed", "first": seen + 1, "nodes": empty,
					"again": []int{}, "deleted": []int{}, "root": 0, "roots": empty, "undecodable": 0, "written": written})
				continue
			}
			k++
			nodes := make([]interface{}, 0, len(st.w.kvs))
			again, deleted := []int{}, []int{}
			undec := 0
			first := seen + 1
			for _, e := range st.w.kvs {
				if st.w.kind == "delete" {
					deleted = append(deleted, m.id(e.k))
					continue
				}
				id := m.id(e.k)
				if id <= seen {
					again = append(again, id)
					continue
				}
				if id != seen+1 {
					vutil.Fatalf("node numbering out of order (%d after %d)", id, seen)
				}
				seen = id
				if !bytes.Equal(trieutil.Keccak(e.v), e.k) {
					undec++ // not content-addressed: nothing this check understands
				}
				rs, _ := refs(e.v)
				ch := make([]int, 0, len(rs))
				for _, r := range rs {
					ch = append(ch, m.id(r))
				}
				if *corrupt == "child" && len(ch) > 0 && id%97 == 5 {
					ch[0] = written + 7 // a reference to a node that is not there
				}
				nodes = append(nodes, ch)
				totalNodes++
			}
			tr.Emit(map[string]interface{}{"event": "Write", "k": k, "kind": st.w.kind, "first": first, "nodes": nodes, "again": again,
				"deleted": deleted, "root": 0, "roots": empty, "undecodable": undec, "written": written})
			totalWrites++
			if failAt == 0 {
				emitReopen()
			}
		}
		if aborted != "" {
			nAborted++
			tr.Emit(map[string]interface{}{"event": "Aborted", "k": k, "kind": aborted, "first": seen + 1, "nodes": empty, "again": []int{},
				"deleted": []int{}, "root": 0, "roots": empty, "undecodable": 0, "written": written})
		}
		return rec.nWrites
	}
	for h := 0; h < *histories; h++ {
		n := runHistory(h, 0, false, nil)
		if h < *faultRuns {
			// the same history again, once per physical write, with that write failing
			for k := 1; k <= n; k++ {
				runHistory(h, k, k%2 == 0, nil)
			}
		}
		if h < *siblingRuns {
			// sibling states on one parent sharing the memory layer, persisted in every order
			for variant := 0; variant < 3; variant++ {
				for _, perm := range [][]int{{0, 1}, {1, 0}} {
					runHistory(h, 0, false, &sibPlan{n: 2, variant: variant, persist: perm})
				}
			}
			for _, perm := range [][]int{{0, 1, 2}, {0, 2, 1}, {1, 0, 2}, {1, 2, 0}, {2, 0, 1}, {2, 1, 0}} {
				runHistory(h, 0, false, &sibPlan{n: 3, variant: 1 + h%2, persist: perm})
			}
			// the persist of one sibling fails on its first write, another sibling is persisted, the first is retried
			runHistory(h, 0, false, &sibPlan{n: 2, variant: 1, persist: []int{0, 1, 0}, failFirst: true})
			runHistory(h, 0, false, &sibPlan{n: 2, variant: 1, persist: []int{1, 0, 1}, failFirst: true})
			runHistory(h, 0, false, &sibPlan{n: 2, variant: 0, persist: []int{1, 0, 1}, failFirst: true})
		}
	}
	tr.Close()
	fmt.Printf("c03: histories=%d writes=%d nodes=%d reopens=%d maxBatchesPerCommit=%d aborted=%d failedWrites=%d successAfterFailure=%d siblingPersists=%d events=%d kinds=%v\n",
		*histories, totalWrites, totalNodes, totalReopens, maxBatches, nAborted, nFailed, nAfterFailure, nSiblingPersists, tr.N, kindsAll)
}
