// c14 instantiates the class lattice of spec/BlsVerify.tla (what is presented
// to groupsig.VerifySig as signature or as public key) with real keys,
// messages and curve points, and records what the real code answered, one
// ndjson event per call, for spec/BlsVerifyTrace.tla.  It also records
// serialise/parse round trips of Seckey / Pubkey / Signature / ID, the
// bilinearity of bn256.Pair on small and on 255-bit scalars, and the
// comparison of pairing values.
package main

import (
	"bytes"
	"encoding/hex"
	"encoding/json"
	"flag"
	"fmt"
	"math/big"
	"math/rand"
	"os"
	"path/filepath"
	"runtime"
	"sync"

	"com.tuntun.rangers/node/src/consensus/base"
	"com.tuntun.rangers/node/src/consensus/groupsig"
	bn "com.tuntun.rangers/node/src/consensus/groupsig/bn256"
	"verif/harness/internal/cryptoutil"
	"verif/harness/internal/vutil"
)

type tcase struct {
	What string `json:"what"`
	Kind string `json:"kind"`
	Enc  string `json:"enc"`
	Key  int    `json:"key"`
	Msg  int    `json:"msg"`
	Arg  int    `json:"arg"`
}

const nk, nm = 2, 2 // must match NK, NM of BlsVerifyTrace.cfg

var (
	tr     *vutil.Trace
	counts = map[string]int{}
)

func emit(ev string, kv map[string]interface{}) {
	kv["event"] = ev
	tr.Emit(kv)
	counts[ev]++
}

func other(x, n int) int { return x%n + 1 }

type world struct {
	sk   [nk + 1]groupsig.Seckey
	pk   [nk + 1]groupsig.Pubkey
	msgs [nm + 1][]byte
}

func newWorld(rng *rand.Rand) *world {
	w := &world{}
	for i := 1; i <= nk; i++ {
		seed := make([]byte, 32)
		rng.Read(seed)
		w.sk[i] = *groupsig.NewSeckeyFromRand(base.RandFromBytes(seed))
		w.pk[i] = *groupsig.GeneratePubkey(w.sk[i])
	}
	for j := 1; j <= nm; j++ {
		m := make([]byte, 32)
		rng.Read(m)
		w.msgs[j] = m
	}
	return w
}

func g1Of(b []byte) *bn.G1 {
	g := new(bn.G1)
	if _, err := g.Unmarshal(b); err != nil {
		vutil.Fatalf("harness: cannot parse an honest signature: %v", err)
	}
	return g
}

func (w *world) honestSig(key, msg int) []byte {
	s := groupsig.Sign(w.sk[key], w.msgs[msg])
	return s.Serialize()
}

// element returns the exact encoding of the G1 element of the given kind.
func (w *world) element(kind string, key, msg int) []byte {
	h := w.honestSig(key, msg)
	switch kind {
	case "honest":
		return h
	case "otherMsg":
		return w.honestSig(key, other(msg, nm))
	case "otherKey":
		return w.honestSig(other(key, nk), msg)
	case "neg":
		return new(bn.G1).Neg(g1Of(h)).Marshal()
	case "double":
		return new(bn.G1).Add(g1Of(h), g1Of(h)).Marshal()
	case "sum":
		return new(bn.G1).Add(g1Of(h), g1Of(w.honestSig(other(key, nk), other(msg, nm)))).Marshal()
	case "identity":
		return make([]byte, 64)
	}
	vutil.Fatalf("unknown kind %q", kind)
	return nil
}

// addP adds the field prime to the 32-byte big-endian coordinate number idx; false if it does not fit in 256 bits.
func addP(b []byte, idx int) ([]byte, bool) {
	out := append([]byte(nil), b...)
	v := new(big.Int).SetBytes(b[32*idx : 32*idx+32])
	v.Add(v, bn.P)
	if v.BitLen() > 256 {
		return nil, false
	}
	v.FillBytes(out[32*idx : 32*idx+32])
	return out, true
}

// encode applies the encoding class to an exact encoding.
func encode(rng *rand.Rand, exact []byte, enc string, arg int, coordinates int) ([]byte, bool) {
	switch enc {
	case "exact":
		return exact, true
	case "truncated":
		return append([]byte(nil), exact[:arg]...), true
	case "overlong":
		extra := make([]byte, arg)
		rng.Read(extra)
		extra[0] |= 1
		return append(append([]byte(nil), exact...), extra...), true
	case "nonreduced":
		if arg >= coordinates {
			return nil, false
		}
		return addP(exact, arg)
	case "offcurve":
		out := append([]byte(nil), exact...)
		y := new(big.Int).SetBytes(exact[32:64])
		y.Add(y, big.NewInt(1)).Mod(y, bn.P)
		y.FillBytes(out[32:64])
		return out, true
	case "bitflip":
		out := append([]byte(nil), exact...)
		out[arg/8] ^= 1 << uint(7-arg%8)
		return out, true
	}
	vutil.Fatalf("unknown encoding %q", enc)
	return nil, false
}

func verify(pk groupsig.Pubkey, msg []byte, sigBytes []byte) (ok bool, panicked bool) {
	defer func() {
		if r := recover(); r != nil {
			ok, panicked = false, true
		}
	}()
	sig := groupsig.DeserializeSign(sigBytes) // the way header / message decoding obtains a Signature
	return groupsig.VerifySig(pk, msg, *sig), false
}

func (w *world) runCase(rng *rand.Rand, c tcase) {
	ev := map[string]interface{}{"case": c, "applicable": true, "verdict": false, "eqHonest": false, "len": 0, "panicked": false}
	honest := w.honestSig(c.Key, c.Msg)
	if c.What == "sig" {
		exact := w.element(c.Kind, c.Key, c.Msg)
		pres, ok := encode(rng, exact, c.Enc, c.Arg, 2)
		if !ok {
			ev["applicable"] = false
			emit("Verify", ev)
			counts["notApplicable"]++
			return
		}
		v, p := verify(w.pk[c.Key], w.msgs[c.Msg], pres)
		ev["verdict"], ev["panicked"], ev["len"] = v, p, len(pres)
		ev["eqHonest"] = bytes.Equal(pres, honest)
		emit("Verify", ev)
		if c.Enc != "bitflip" || c.Arg%64 == 0 {
			g := new(bn.G1)
			_, err := g.Unmarshal(pres)
			s := groupsig.DeserializeSign(pres)
			emit("G1Parse", map[string]interface{}{"enc": c.Enc, "kind": c.Kind, "err": err != nil, "isValid": !s.IsNil() && s.IsValid()})
		}
		return
	}
	// public key presented, with the honest signature of (key, msg)
	k := c.Key
	if c.Kind == "otherKey" {
		k = other(c.Key, nk)
	}
	exact := w.pk[k].Serialize()
	pres, ok := encode(rng, exact, c.Enc, c.Arg, 4)
	if !ok {
		ev["applicable"] = false
		emit("Verify", ev)
		counts["notApplicable"]++
		return
	}
	pk := groupsig.ByteToPublicKey(pres) // the way group public keys are parsed from chain data
	v, p := verify(pk, w.msgs[c.Msg], honest)
	ev["verdict"], ev["panicked"], ev["len"] = v, p, len(pres)
	ev["eqHonest"] = bytes.Equal(pres, w.pk[c.Key].Serialize())
	emit("Verify", ev)
}

func pad32(b []byte) []byte {
	if len(b) >= 32 {
		return b
	}
	out := make([]byte, 32)
	copy(out[32-len(b):], b)
	return out
}

func roundTrips(rng *rand.Rand, w *world) {
	ints := cryptoutil.Ints
	for r := 0; r < 6; r++ {
		// secret keys, some with leading zero bytes
		raw := make([]byte, 32)
		rng.Read(raw)
		for i := 0; i < r%3; i++ {
			raw[i] = 0
		}
		sk := *groupsig.NewSeckeyFromBigInt(new(big.Int).SetBytes(raw))
		val := pad32(sk.GetBigInt().Bytes())
		ser := sk.Serialize()
		var s2 groupsig.Seckey
		s2.Deserialize(ser)
		emit("RoundTrip", map[string]interface{}{"type": "seckey", "via": "bytes", "value": ints(val), "serialized": ints(ser),
			"parsed": ints(pad32(s2.GetBigInt().Bytes())), "isEqual": s2.IsEqual(sk)})
		var s3 groupsig.Seckey
		s3.SetHexString(sk.GetHexString())
		emit("RoundTrip", map[string]interface{}{"type": "seckey", "via": "hex", "value": ints(val), "serialized": ints([]byte(sk.GetHexString())),
			"parsed": ints(pad32(s3.GetBigInt().Bytes())), "isEqual": s3.IsEqual(sk)})
		// ids
		idb := make([]byte, 32)
		rng.Read(idb)
		for i := 0; i < r%3; i++ {
			idb[i] = 0
		}
		id := groupsig.DeserializeID(idb)
		iser := id.Serialize()
		id2 := groupsig.DeserializeID(iser)
		emit("RoundTrip", map[string]interface{}{"type": "id", "via": "bytes", "value": ints(idb), "serialized": ints(iser),
			"parsed": ints(pad32(id2.GetBigInt().Bytes())), "isEqual": id2.IsEqual(id)})
		var id3 groupsig.ID
		id3.SetHexString(id.GetHexString())
		emit("RoundTrip", map[string]interface{}{"type": "id", "via": "hex", "value": ints(idb), "serialized": ints([]byte(id.GetHexString())),
			"parsed": ints(pad32(id3.GetBigInt().Bytes())), "isEqual": id3.IsEqual(id)})
		// public keys and signatures
		pk := *groupsig.GeneratePubkey(sk)
		pser := pk.Serialize()
		var pk2 groupsig.Pubkey
		perr := pk2.Deserialize(pser)
		emit("RoundTrip", map[string]interface{}{"type": "pubkey", "via": "bytes", "value": ints(pser), "serialized": ints(pser),
			"parsed": ints(pk2.Serialize()), "isEqual": perr == nil && pk2.IsEqual(pk)})
		var pk3 groupsig.Pubkey
		pk3.SetHexString(pk.GetHexString())
		emit("RoundTrip", map[string]interface{}{"type": "pubkey", "via": "hex", "value": ints(pser), "serialized": ints([]byte(pk.GetHexString())),
			"parsed": ints(pk3.Serialize()), "isEqual": pk3.IsEqual(pk)})
		sig := groupsig.Sign(sk, w.msgs[1])
		sser := sig.Serialize()
		sig2 := groupsig.DeserializeSign(sser)
		emit("RoundTrip", map[string]interface{}{"type": "sig", "via": "bytes", "value": ints(sser), "serialized": ints(sser),
			"parsed": ints(sig2.Serialize()), "isEqual": sig2.IsEqual(sig)})
		var sig3 groupsig.Signature
		sig3.SetHexString(sig.GetHexString())
		emit("RoundTrip", map[string]interface{}{"type": "sig", "via": "hex", "value": ints(sser), "serialized": ints([]byte(sig.GetHexString())),
			"parsed": ints(sig3.Serialize()), "isEqual": sig3.IsEqual(sig)})
	}
}

// hexSweep: hex export / import (GetHexString -> SetHexString) of secret keys and ids for every number
// of hex digits 1..64 (the export writes no leading zero digit: odd digit counts, zero top nibbles), and
// of small ids.
func hexSweep(rng *rand.Rand) {
	ints := cryptoutil.Ints
	one := big.NewInt(1)
	for digits := 1; digits <= 64; digits++ {
		// a random value with exactly this many hex digits
		lo := new(big.Int).Lsh(one, uint(4*(digits-1)))
		v := new(big.Int).Rand(rng, lo.Mul(lo, big.NewInt(15)))
		v.Add(v, new(big.Int).Lsh(one, uint(4*(digits-1))))
		if v.Cmp(bn.Order) >= 0 {
			v.Sub(v, bn.Order)
		}
		sk := *groupsig.NewSeckeyFromBigInt(new(big.Int).Set(v))
		val := pad32(sk.GetBigInt().Bytes())
		var s2 groupsig.Seckey
		s2.SetHexString(sk.GetHexString())
		emit("RoundTrip", map[string]interface{}{"type": "seckey", "via": "hex", "digits": len(sk.GetHexString()) - 2, "value": ints(val),
			"serialized": ints([]byte(sk.GetHexString())), "parsed": ints(pad32(s2.GetBigInt().Bytes())), "isEqual": s2.IsEqual(sk)})
		var id groupsig.ID
		id.SetBigInt(v)
		var id2 groupsig.ID
		id2.SetHexString("0x" + v.Text(16)) // the unpadded form other tools and logs use for ids
		emit("RoundTrip", map[string]interface{}{"type": "id", "via": "hexUnpadded", "digits": digits, "value": ints(pad32(v.Bytes())),
			"serialized": ints([]byte("0x" + v.Text(16))), "parsed": ints(pad32(id2.GetBigInt().Bytes())), "isEqual": id2.IsEqual(id)})
		var id3 groupsig.ID
		id3.SetHexString(id.GetHexString())
		emit("RoundTrip", map[string]interface{}{"type": "id", "via": "hex", "digits": digits, "value": ints(pad32(v.Bytes())),
			"serialized": ints([]byte(id.GetHexString())), "parsed": ints(pad32(id3.GetBigInt().Bytes())), "isEqual": id3.IsEqual(id)})
	}
	for _, n := range []int64{1, 2, 9, 15, 16, 17, 255, 256, 257, 1000, 4095, 4096} {
		v := big.NewInt(n)
		var id, id2 groupsig.ID
		id.SetBigInt(v)
		id2.SetHexString("0x" + v.Text(16))
		emit("RoundTrip", map[string]interface{}{"type": "id", "via": "hexUnpadded", "digits": len(v.Text(16)), "value": ints(pad32(v.Bytes())),
			"serialized": ints([]byte("0x" + v.Text(16))), "parsed": ints(pad32(id2.GetBigInt().Bytes())), "isEqual": id2.IsEqual(id)})
		sk := *groupsig.NewSeckeyFromBigInt(new(big.Int).Set(v))
		var s2 groupsig.Seckey
		s2.SetHexString(sk.GetHexString())
		emit("RoundTrip", map[string]interface{}{"type": "seckey", "via": "hex", "digits": len(v.Text(16)), "value": ints(pad32(v.Bytes())),
			"serialized": ints([]byte(sk.GetHexString())), "parsed": ints(pad32(s2.GetBigInt().Bytes())), "isEqual": s2.IsEqual(sk)})
	}
}

// freshG2InPair: goroutines pair against ONE G2 point that comes straight from arithmetic (the first
// thing that touches it are the concurrent pairings): every pairing value is the one obtained alone,
// and the point still encodes to what an independently computed copy encodes to.
func freshG2InPair(rng *rand.Rand, goroutines, rounds int) {
	wrong, corrupted := 0, 0
	for r := 0; r < rounds; r++ {
		k := new(big.Int).Rand(rng, bn.Order)
		q := new(bn.G2).ScalarBaseMult(k)
		refQ := new(bn.G2).ScalarBaseMult(k)
		p := new(bn.G1).ScalarBaseMult(big.NewInt(int64(7 + r)))
		pa := new(bn.G1)
		pa.Unmarshal(p.Marshal())
		ref := bn.Pair(pa, refQ).Marshal()
		bad := make([]int, goroutines)
		var wg sync.WaitGroup
		start := make(chan struct{})
		for g := 0; g < goroutines; g++ {
			wg.Add(1)
			go func(g int) {
				defer wg.Done()
				<-start
				if !bytes.Equal(bn.Pair(pa, q).Marshal(), ref) {
					bad[g]++
				}
			}(g)
		}
		close(start)
		wg.Wait()
		for _, b := range bad {
			wrong += b
		}
		if !bytes.Equal(q.Marshal(), refQ.Marshal()) {
			corrupted++
		}
	}
	emit("SharedObject", map[string]interface{}{"kind": "pubkeyPointFreshInPair", "goroutines": goroutines, "rounds": rounds,
		"verifyFailures": wrong, "objectsCorrupted": corrupted})
}

func le32(x *big.Int) []int {
	b := pad32(x.Bytes())
	out := make([]int, 32)
	for i := 0; i < 32; i++ {
		out[i] = int(b[31-i])
	}
	return out
}

func pairings(rng *rand.Rand, nBig int) {
	gtOne := new(bn.GT).Marshal()
	basePair := bn.Pair(new(bn.G1).ScalarBaseMult(big.NewInt(1)), new(bn.G2).ScalarBaseMult(big.NewInt(1)))
	one := func(g *bn.GT) bool { return bytes.Equal(g.Marshal(), gtOne) }
	for a := 0; a <= 3; a++ {
		for b := 0; b <= 3; b++ {
			a2 := (a + b + 1) % 4
			aP := new(bn.G1).ScalarBaseMult(big.NewInt(int64(a)))
			a2P := new(bn.G1).ScalarBaseMult(big.NewInt(int64(a2)))
			bQ := new(bn.G2).ScalarBaseMult(big.NewInt(int64(b)))
			lhs := bn.Pair(aP, bQ)
			rhs := new(bn.GT).ScalarMult(basePair, big.NewInt(int64(a*b)))
			sum := bn.Pair(new(bn.G1).Add(aP, a2P), bQ)
			prod := new(bn.GT).Add(bn.Pair(aP, bQ), bn.Pair(a2P, bQ))
			emit("Pair", map[string]interface{}{"a": a, "b": b, "a2": a2, "bilinear": bn.PairIsEuqal(lhs, rhs),
				"additive": bn.PairIsEuqal(sum, prod), "isOne": one(lhs)})
		}
	}
	for r := 0; r < nBig; r++ {
		a := new(big.Int).Rand(rng, bn.Order)
		b := new(big.Int).Rand(rng, bn.Order)
		switch r {
		case 0:
			a = new(big.Int).Set(bn.Order) // a multiple of the group order
		case 1:
			a = new(big.Int).Sub(bn.Order, big.NewInt(1))
		}
		aP := new(bn.G1).ScalarBaseMult(a)
		bQ := new(bn.G2).ScalarBaseMult(b)
		lhs := bn.Pair(aP, bQ)
		ab := new(big.Int).Mul(a, b)
		ab.Mod(ab, bn.Order)
		rhs := new(bn.GT).ScalarMult(basePair, ab)
		emit("PairBig", map[string]interface{}{"a": le32(a), "b": le32(b), "bilinear": bn.PairIsEuqal(lhs, rhs), "isOne": one(lhs)})
	}
	// e(P, -Q) = e(P, Q)^-1 (G2 negation is exported by the curve package, unused by the node)
	{
		pP := new(bn.G1).ScalarBaseMult(big.NewInt(3))
		qQ := new(bn.G2).ScalarBaseMult(big.NewInt(5))
		qAff := new(bn.G2)
		if _, err := qAff.Unmarshal(qQ.Marshal()); err != nil {
			vutil.Fatalf("G2 round trip: %v", err)
		}
		lhs := bn.Pair(pP, new(bn.G2).Neg(qAff))
		rhs := new(bn.GT).Neg(bn.Pair(pP, qAff))
		emit("PairNeg", map[string]interface{}{"inverse": bn.PairIsEuqal(lhs, rhs)})
	}
	// comparison of pairing values: a difference in any of the twelve coordinates must be seen
	g := bn.Pair(new(bn.G1).ScalarBaseMult(big.NewInt(5)), new(bn.G2).ScalarBaseMult(big.NewInt(7)))
	gb := g.Marshal()
	for limb := -1; limb < 12; limb++ {
		cp := append([]byte(nil), gb...)
		if limb >= 0 {
			cp[limb*32+31] ^= 1
		}
		g2 := new(bn.GT)
		if _, err := g2.Unmarshal(cp); err != nil {
			vutil.Fatalf("GT unmarshal: %v", err)
		}
		emit("GtEq", map[string]interface{}{"limb": limb, "equal": bn.PairIsEuqal(g, g2)})
	}
}

type keySigCase struct {
	KeyClass string `json:"keyClass"`
	Arg      int    `json:"arg"`
	KeyEntry string `json:"keyEntry"`
	SigClass string `json:"sigClass"`
	SigEntry string `json:"sigEntry"`
}

// keySig: the product malformed public key x degenerate signature through every parsing entry point.
// The verdict is what a caller that honours the entry point's error return obtains.
func keySig(rng *rand.Rand, w *world, cases []keySigCase) {
	honestKey := w.pk[1].Serialize()
	msg := w.msgs[1]
	for _, c := range cases {
		ev := map[string]interface{}{"case": c, "applicable": true, "verdict": false, "keyErr": false, "sigErr": false, "panicked": false}
		var kb []byte
		ok := true
		switch c.KeyClass {
		case "exact":
			kb = honestKey
		case "empty":
			kb = []byte{}
		case "nil":
			kb = nil
		case "truncated":
			kb = append([]byte(nil), honestKey[:c.Arg]...)
		case "overlong":
			kb, _ = encode(rng, honestKey, "overlong", c.Arg, 4)
		case "nonreduced":
			kb, ok = encode(rng, honestKey, "nonreduced", c.Arg, 4)
		case "offcurve":
			kb = append([]byte(nil), honestKey...)
			y := new(big.Int).SetBytes(kb[96:128])
			y.Add(y, big.NewInt(1)).Mod(y, bn.P)
			y.FillBytes(kb[96:128])
		case "identity":
			kb = make([]byte, 128)
		default:
			vutil.Fatalf("unknown key class %q", c.KeyClass)
		}
		if !ok {
			ev["applicable"] = false
			emit("KeySig", ev)
			continue
		}
		var sb []byte
		switch c.SigClass {
		case "honest":
			sb = w.honestSig(1, 1)
		case "identity":
			sb = make([]byte, 64)
		case "truncated":
			sb = w.honestSig(1, 1)[:32]
		case "garbage":
			g := groupsig.Sign(w.sk[2], []byte("garbage"))
			sb = g.Serialize()
		case "empty":
			sb = []byte{}
		default:
			vutil.Fatalf("unknown signature class %q", c.SigClass)
		}
		func() {
			defer func() {
				if r := recover(); r != nil {
					ev["panicked"] = true
				}
			}()
			var pk groupsig.Pubkey
			keyOk := true
			switch c.KeyEntry {
			case "ByteToPublicKey":
				pk = groupsig.ByteToPublicKey(kb)
			case "Deserialize":
				keyOk = pk.Deserialize(kb) == nil
			case "SetHexString":
				keyOk = pk.SetHexString("0x"+hex.EncodeToString(kb)) == nil
			case "UnmarshalJSON":
				keyOk = json.Unmarshal([]byte("\"0x"+hex.EncodeToString(kb)+"\""), &pk) == nil
			default:
				vutil.Fatalf("unknown key entry %q", c.KeyEntry)
			}
			var sig groupsig.Signature
			sigOk := true
			switch c.SigEntry {
			case "DeserializeSign":
				sig = *groupsig.DeserializeSign(sb)
			case "Deserialize":
				sigOk = sig.Deserialize(sb) == nil
			case "SetHexString":
				sigOk = sig.SetHexString("0x"+hex.EncodeToString(sb)) == nil
			default:
				vutil.Fatalf("unknown signature entry %q", c.SigEntry)
			}
			ev["keyErr"], ev["sigErr"] = !keyOk, !sigOk
			ev["verdict"] = keyOk && sigOk && groupsig.VerifySig(pk, msg, sig)
		}()
		emit("KeySig", ev)
		if ev["verdict"] == true {
			counts["keySigAccepted"]++
		}
	}
}

// concurrency: goroutines sign and verify different (key, message) pairs at the same time; each compares
// with what it computed alone beforehand (signature bytes, verdicts), for 32 B, 1 KiB and 16 KiB
// messages, on all cores and on one.
func concurrency(rng *rand.Rand, workers, iterations int) {
	for _, procs := range []int{0, 1} {
		old := runtime.GOMAXPROCS(0)
		if procs == 1 {
			runtime.GOMAXPROCS(1)
		}
		for _, size := range []int{32, 1024, 16384} {
			type job struct {
				sk       groupsig.Seckey
				pk       groupsig.Pubkey
				m, other []byte
				ref      []byte
			}
			jobs := make([]job, workers)
			for i := range jobs {
				seed := make([]byte, 32)
				rng.Read(seed)
				jobs[i].sk = *groupsig.NewSeckeyFromRand(base.RandFromBytes(seed))
				jobs[i].pk = *groupsig.GeneratePubkey(jobs[i].sk)
				jobs[i].m = make([]byte, size)
				rng.Read(jobs[i].m)
				jobs[i].other = append([]byte(nil), jobs[i].m...)
				jobs[i].other[size-1] ^= 1
				sig := groupsig.Sign(jobs[i].sk, jobs[i].m)
				jobs[i].ref = sig.Serialize()
				if ok, _ := verify(jobs[i].pk, jobs[i].m, jobs[i].ref); !ok {
					vutil.Fatalf("harness: sequential reference signature does not verify")
				}
			}
			mism, fail, falseAcc := make([]int, workers), make([]int, workers), make([]int, workers)
			var wg sync.WaitGroup
			for i := range jobs {
				wg.Add(1)
				go func(i int) {
					defer wg.Done()
					j := jobs[i]
					for it := 0; it < iterations; it++ {
						sig := groupsig.Sign(j.sk, j.m)
						if !bytes.Equal(sig.Serialize(), j.ref) {
							mism[i]++
						}
						if ok, _ := verify(j.pk, j.m, j.ref); !ok {
							fail[i]++
						}
						if ok, _ := verify(j.pk, j.other, j.ref); ok {
							falseAcc[i]++
						}
					}
				}(i)
			}
			wg.Wait()
			mm, ff, fa := 0, 0, 0
			for i := range jobs {
				mm, ff, fa = mm+mism[i], ff+fail[i], fa+falseAcc[i]
			}
			emit("Concurrent", map[string]interface{}{"gomaxprocs": runtime.GOMAXPROCS(0), "goroutines": workers, "iterations": iterations,
				"size": fmt.Sprintf("%dB", size), "sigMismatches": mm, "verifyFailures": ff, "falseAccepts": fa})
		}
		runtime.GOMAXPROCS(old)
	}
}

// sharedObjects: several goroutines verify with ONE signature object that comes straight from Sign or
// RecoverGroupSignature (projective coordinates, never serialised) and with ONE public key object from
// GeneratePubkey / AggregatePubkeys. Verification only reads its arguments as far as a caller can tell.
func sharedObjects(rng *rand.Rand, goroutines, rounds int) {
	for _, kind := range []string{"signatureFromSign", "signatureFromRecover", "pubkeyFromGenerate", "pubkeyFromAggregate"} {
		failures, corrupted := 0, 0
		for r := 0; r < rounds; r++ {
			seed := make([]byte, 32)
			rng.Read(seed)
			sk := *groupsig.NewSeckeyFromRand(base.RandFromBytes(seed))
			rng.Read(seed)
			sk2 := *groupsig.NewSeckeyFromRand(base.RandFromBytes(seed))
			msg := make([]byte, 32)
			rng.Read(msg)
			var sig groupsig.Signature
			var pk groupsig.Pubkey
			var refSig, refPk []byte
			switch kind {
			case "signatureFromSign":
				sig = groupsig.Sign(sk, msg)
				pk = *groupsig.GeneratePubkey(sk)
				pk.Serialize()
			case "signatureFromRecover":
				// a 1-of-1 "group": the recovered signature is the share itself, produced by the recovery code
				id := groupsig.DeserializeID(seed)
				one := groupsig.Sign(sk, msg)
				sig = *groupsig.RecoverGroupSignature(map[string]groupsig.Signature{id.GetHexString(): one}, 1)
				pk = *groupsig.GeneratePubkey(sk)
				pk.Serialize()
			case "pubkeyFromGenerate":
				pk = *groupsig.GeneratePubkey(sk)
				s := groupsig.Sign(sk, msg)
				sig = *groupsig.DeserializeSign(s.Serialize())
			case "pubkeyFromAggregate":
				agg := groupsig.AggregateSeckeys([]groupsig.Seckey{sk, sk2})
				pk = *groupsig.AggregatePubkeys([]groupsig.Pubkey{*groupsig.GeneratePubkey(sk), *groupsig.GeneratePubkey(sk2)})
				s := groupsig.Sign(*agg, msg)
				sig = *groupsig.DeserializeSign(s.Serialize())
			}
			// references from independent objects
			{
				var k groupsig.Seckey = sk
				if kind == "pubkeyFromAggregate" {
					k = *groupsig.AggregateSeckeys([]groupsig.Seckey{sk, sk2})
				}
				rs := groupsig.Sign(k, msg)
				refSig = rs.Serialize()
				refPk = groupsig.GeneratePubkey(k).Serialize()
			}
			fails := make([]int, goroutines)
			var wg sync.WaitGroup
			start := make(chan struct{})
			for g := 0; g < goroutines; g++ {
				wg.Add(1)
				go func(g int) {
					defer wg.Done()
					defer func() {
						if p := recover(); p != nil {
							fails[g]++
						}
					}()
					<-start
					if !groupsig.VerifySig(pk, msg, sig) {
						fails[g]++
					}
				}(g)
			}
			close(start)
			wg.Wait()
			for _, f := range fails {
				failures += f
			}
			if !bytes.Equal(sig.Serialize(), refSig) || !bytes.Equal(pk.Serialize(), refPk) {
				corrupted++
			}
		}
		emit("SharedObject", map[string]interface{}{"kind": kind, "goroutines": goroutines, "rounds": rounds,
			"verifyFailures": failures, "objectsCorrupted": corrupted})
	}
}

// parseLeftovers: what a failed public-key parse leaves behind, and whether a key has one encoding
// (observations beyond the statement).
func parseLeftovers(rng *rand.Rand, w *world) {
	honest := w.pk[1].Serialize()
	off := append([]byte(nil), honest...)
	y := new(big.Int).SetBytes(off[96:128])
	y.Add(y, big.NewInt(1)).Mod(y, bn.P)
	y.FillBytes(off[96:128])
	for _, c := range []struct {
		class string
		b     []byte
	}{{"offcurve", off}, {"truncated", honest[:100]}} {
		var pk groupsig.Pubkey
		err := pk.Deserialize(c.b)
		emit("FailedKeyParse", map[string]interface{}{"class": c.class, "err": err != nil, "isValidAfterwards": pk.IsValid()})
	}
	sig := w.honestSig(1, 1)
	for _, enc := range []string{"overlong", "nonreduced"} {
		for arg := 0; arg < 4; arg++ {
			a := arg
			if enc == "overlong" {
				a = 1 + 31*(arg%2)
			}
			kb, ok := encode(rng, honest, enc, a, 4)
			if !ok {
				continue
			}
			var pk groupsig.Pubkey
			err := pk.Deserialize(kb)
			v := false
			if err == nil {
				v, _ = verify(pk, w.msgs[1], sig)
			}
			emit("KeyEncoding", map[string]interface{}{"enc": enc, "parses": err == nil, "verifies": v,
				"reserializesToInput": err == nil && bytes.Equal(pk.Serialize(), kb)})
		}
	}
}

type msgPair struct {
	Rel  string `json:"rel"`
	Salt int    `json:"salt"`
	M1   []int  `json:"m1"`
	M2   []int  `json:"m2"`
}

type msgCase struct {
	Pair  msgPair `json:"pair"`
	Order string  `json:"order"`
}

func toBytes(v []int) []byte {
	b := make([]byte, len(v))
	for i, x := range v {
		b[i] = byte(x)
	}
	return b
}

// msgPairs: the full cross table of two related messages in this process: the message met first
// is signed and verified, its signature is presented for the other message, then the other way round.
func msgPairs(w *world, cases []msgCase, order string) {
	for _, c := range cases {
		if c.Order != order {
			continue
		}
		first, second := c.Pair.M1, c.Pair.M2
		if c.Order == "rev" {
			first, second = second, first
		}
		fb, sb := toBytes(first), toBytes(second)
		sig1 := groupsig.Sign(w.sk[1], fb)
		s1 := sig1.Serialize()
		selfFirst, _ := verify(w.pk[1], fb, s1)
		cross1, _ := verify(w.pk[1], sb, s1)
		sig2 := groupsig.Sign(w.sk[1], sb)
		s2 := sig2.Serialize()
		selfSecond, _ := verify(w.pk[1], sb, s2)
		cross2, _ := verify(w.pk[1], fb, s2)
		emit("MsgPair", map[string]interface{}{"rel": c.Pair.Rel, "order": c.Order, "ms": first, "mo": second,
			"selfFirst": selfFirst, "selfSecond": selfSecond, "crossFirstSigSecondMsg": cross1, "crossSecondSigFirstMsg": cross2,
			"sigEqual": bytes.Equal(s1, s2)})
	}
}

// history: an honest signature must verify whatever the process hashed before or in between: many
// unrelated messages (more than any cache of recent hashes is likely to hold), and messages related to
// the signed one arriving once it may have been forgotten.
func history(rng *rand.Rand, w *world, others int) {
	for _, n := range []int{5, 32, 40, 64} {
		m := make([]byte, n)
		rng.Read(m)
		m[0] |= 1
		sig := groupsig.Sign(w.sk[1], m)
		s := sig.Serialize()
		before, _ := verify(w.pk[1], m, s)
		for i := 0; i < others; i++ {
			o := make([]byte, 8+rng.Intn(60))
			rng.Read(o)
			groupsig.Sign(w.sk[2], o)
		}
		// relatives of m: same tail / leading zeros
		rel := append([]byte{0}, m...)
		groupsig.Sign(w.sk[2], rel)
		if n > 32 {
			rel2 := append([]byte(nil), m...)
			rel2[0] ^= 0x5a
			groupsig.Sign(w.sk[2], rel2)
		}
		after, _ := verify(w.pk[1], m, s)
		again := groupsig.Sign(w.sk[1], m)
		emit("History", map[string]interface{}{"kind": fmt.Sprintf("len%d", n), "others": others, "before": before, "after": after,
			"sigSame": bytes.Equal(again.Serialize(), s)})
	}
}

func main() {
	out := flag.String("out", "trace.ndjson", "trace file")
	script := flag.String("script", "", "JSON file: list of TLC-generated cases")
	salt := flag.Int64("salt", 0, "shard number")
	worlds := flag.Int("worlds", 1, "instantiations (fresh keys and messages) of every case")
	extras := flag.Bool("extras", false, "also record round trips, pairings, pairing-value comparison")
	nBig := flag.Int("bigpairs", 4, "pairings on 255-bit scalars (with --extras)")
	sweep := flag.Int("sweep", 0, "honest sign/verify/round-trip of this many fresh random messages (completeness over messages)")
	keyScript := flag.String("keyscript", "", "JSON file: malformed key x degenerate signature cases generated by TLC")
	conc := flag.Int("concurrent", 0, "iterations per goroutine of the concurrent sign/verify family (0: off)")
	msgScript := flag.String("msgscript", "", "JSON file: related message pairs generated by TLC")
	msgOrder := flag.String("msgorder", "fwd", "which order of every pair this process replays (fwd | rev)")
	others := flag.Int("others", 1500, "unrelated messages hashed between the two verifications of a History event")
	flag.Parse()
	outAbs, _ := filepath.Abs(*out)
	var kcases []keySigCase
	if *keyScript != "" {
		b, err := os.ReadFile(*keyScript)
		if err != nil {
			vutil.Fatalf("read keyscript: %v", err)
		}
		if err := json.Unmarshal(b, &kcases); err != nil {
			vutil.Fatalf("parse keyscript: %v", err)
		}
	}
	var mcases []msgCase
	if *msgScript != "" {
		b, err := os.ReadFile(*msgScript)
		if err != nil {
			vutil.Fatalf("read msgscript: %v", err)
		}
		if err := json.Unmarshal(b, &mcases); err != nil {
			vutil.Fatalf("parse msgscript: %v", err)
		}
	}
	var cases []tcase
	if *script != "" {
		b, err := os.ReadFile(*script)
		if err != nil {
			vutil.Fatalf("read script: %v", err)
		}
		if err := json.Unmarshal(b, &cases); err != nil {
			vutil.Fatalf("parse script: %v", err)
		}
	}
	rng := vutil.Rng(14 + 1000**salt)
	tr = vutil.NewTrace(outAbs)
	for wi := 0; wi < *worlds; wi++ {
		w := newWorld(rng)
		for _, c := range cases {
			w.runCase(rng, c)
		}
		if *extras && wi == 0 {
			roundTrips(rng, w)
			hexSweep(rng)
			pairings(rng, *nBig)
		}
	}
	if *sweep > 0 {
		// the honest signature of EVERY message must verify and survive the wire form: the message
		// enters only through the hash to the curve, so many different messages are tried
		w := newWorld(rng)
		c := tcase{What: "sig", Kind: "honest", Enc: "exact", Key: 1, Msg: 1}
		for i := 0; i < *sweep; i++ {
			n := 32
			if i%4 == 3 {
				n = rng.Intn(96)
			}
			msg := make([]byte, n)
			rng.Read(msg)
			sig := groupsig.Sign(w.sk[1], msg)
			wire := sig.Serialize()
			v, p := verify(w.pk[1], msg, wire)
			emit("Verify", map[string]interface{}{"case": c, "applicable": true, "verdict": v, "eqHonest": true, "len": len(wire), "panicked": p})
		}
	}
	if len(kcases) > 0 {
		keySig(rng, newWorld(rng), kcases)
	}
	if *conc > 0 {
		concurrency(rng, 8, *conc)
		sharedObjects(rng, 6, *conc)
		freshG2InPair(rng, 6, *conc)
		if *extras {
			parseLeftovers(rng, newWorld(rng))
		}
	}
	if len(mcases) > 0 {
		// first thing related messages meet in this process is each other (before the history runs)
		w := newWorld(rng)
		msgPairs(w, mcases, *msgOrder)
		history(rng, w, *others)
	}
	tr.Close()
	fmt.Printf("c14: shared=%d keysig=%d keySigAccepted=%d concurrent=%d msgpair=%d history=%d verify=%d notApplicable=%d g1parse=%d roundtrip=%d pair=%d pairbig=%d gteq=%d events=%d\n",
		counts["SharedObject"], counts["KeySig"], counts["keySigAccepted"], counts["Concurrent"], counts["MsgPair"], counts["History"],
		counts["Verify"], counts["notApplicable"], counts["G1Parse"], counts["RoundTrip"], counts["Pair"], counts["PairBig"], counts["GtEq"], tr.N)
}
