package main

import (
	"io"
	"math/big"
	"reflect"
	"sort"

	"com.tuntun.rangers/node/src/storage/rlp"
)

// The type catalogue.  spec/Rlp.tla (TypeOf) describes the same types under
// the same names; the reference decoding/encoding of each is computed there.

type Inner struct {
	A uint64
	B []byte
}

type SnilA struct {
	N  uint64
	To *[20]byte `rlp:"nil"`
}

type SnilU struct {
	P *uint64 `rlp:"nil"`
	Q uint8
}

type SnilS struct {
	P *Inner `rlp:"nil"`
}

type Stail struct {
	A uint64
	T []uint64 `rlp:"tail"`
}

type Sptr struct {
	P *uint64
	Q *big.Int
	R *[]byte
}

type Snest struct {
	X Inner
	L []Inner
	Y [2]uint16
}

type Sraw struct {
	R rlp.RawValue
	A uint64
}

type Sbool struct {
	F bool
	G bool
	S string
}

// EthTx has the field layout of eth_tx.txdata (the signed Ethereum payload).
type EthTx struct {
	AccountNonce uint64
	Price        *big.Int
	GasLimit     uint64
	Recipient    *[20]byte `rlp:"nil"`
	Amount       *big.Int
	Payload      []byte
	V            *big.Int
	R            *big.Int
	S            *big.Int
	Ignored      *[32]byte `rlp:"-"`
}

// Self-referential types: through a nil pointer, a slice, a second struct, an array.
type RList struct {
	Val  uint64
	Next *RList `rlp:"nil"`
}

type RTree struct {
	Tag  []byte
	Kids []RTree
}

type RA struct {
	X uint8
	B *RB `rlp:"nil"`
}

type RB struct {
	Y []byte
	A []RA
}

type RArr struct {
	V   uint8
	Sub [1][]RArr
}

// Sa1: a one-byte array followed by another field.
type Sa1 struct {
	A [1]byte
	B uint8
}

// Sif: interface{}, big.Int by value, pointers to bool and string, plain uint as fields.
type Sif struct {
	A interface{}
	B uint8
	C big.Int
	D *bool
	E *string
	F uint
}

type encWire struct{ V uint64 }

// EncP codes itself (pointer receivers): as the one-field list [V].
type EncP struct{ V uint64 }

func (e *EncP) EncodeRLP(w io.Writer) error { return rlp.Encode(w, &encWire{e.V}) }
func (e *EncP) DecodeRLP(s *rlp.Stream) error {
	var t encWire
	if err := s.Decode(&t); err != nil {
		return err
	}
	e.V = t.V
	return nil
}

// EncV codes itself with a value-receiver encoder.
type EncV struct{ V uint64 }

func (e EncV) EncodeRLP(w io.Writer) error { return rlp.Encode(w, &encWire{e.V}) }
func (e *EncV) DecodeRLP(s *rlp.Stream) error {
	var t encWire
	if err := s.Decode(&t); err != nil {
		return err
	}
	e.V = t.V
	return nil
}

type Senc struct {
	A EncP
	B *EncP
	C EncV
}

// Wide: one field of each struct type of the zoo (many distinct field types).
type Wide struct {
	A Inner
	B SnilA
	C SnilU
	D SnilS
	E Stail
	F Sptr
	G Snest
	H Sbool
	I EthTx
	J RList
	K RTree
	L RA
	M RArr
	N Sa1
	O Sif
	P Senc
}

// noByValue: types whose values cannot be encoded unless addressable (documented:
// "unadressable value ..., EncodeRLP is pointer method").
var noByValue = map[string]bool{"encp": true, "Senc": true, "Wide": true}

var catalogue = map[string]reflect.Type{
	"Wide":  reflect.TypeOf(Wide{}),
	"RList": reflect.TypeOf(RList{}),
	"RTree": reflect.TypeOf(RTree{}),
	"RA":    reflect.TypeOf(RA{}),
	"RB":    reflect.TypeOf(RB{}),
	"RArr":  reflect.TypeOf(RArr{}),
	"Sa1":   reflect.TypeOf(Sa1{}),
	"Sif":   reflect.TypeOf(Sif{}),
	"encp":  reflect.TypeOf(EncP{}),
	"pencp": reflect.TypeOf((*EncP)(nil)),
	"encv":  reflect.TypeOf(EncV{}),
	"Senc":  reflect.TypeOf(Senc{}),
	"u8":     reflect.TypeOf(uint8(0)),
	"u16":    reflect.TypeOf(uint16(0)),
	"u32":    reflect.TypeOf(uint32(0)),
	"u64":    reflect.TypeOf(uint64(0)),
	"big":    reflect.TypeOf((*big.Int)(nil)),
	"bigv":   reflect.TypeOf(big.Int{}),
	"bool":   reflect.TypeOf(false),
	"bytes":  reflect.TypeOf([]byte(nil)),
	"str":    reflect.TypeOf(""),
	"a0":     reflect.TypeOf([0]byte{}),
	"a1":     reflect.TypeOf([1]byte{}),
	"a3":     reflect.TypeOf([3]byte{}),
	"a20":    reflect.TypeOf([20]byte{}),
	"a32":    reflect.TypeOf([32]byte{}),
	"iface":  reflect.TypeOf((*interface{})(nil)).Elem(),
	"raw":    reflect.TypeOf(rlp.RawValue(nil)),
	"lu64":   reflect.TypeOf([]uint64(nil)),
	"lbytes": reflect.TypeOf([][]byte(nil)),
	"liface": reflect.TypeOf([]interface{}(nil)),
	"llu16":  reflect.TypeOf([][]uint16(nil)),
	"au2":    reflect.TypeOf([2]uint16{}),
	"lraw":   reflect.TypeOf([]rlp.RawValue(nil)),
	"pu64":   reflect.TypeOf((*uint64)(nil)),
	"S1":     reflect.TypeOf(Inner{}),
	"SnilA":  reflect.TypeOf(SnilA{}),
	"SnilU":  reflect.TypeOf(SnilU{}),
	"SnilS":  reflect.TypeOf(SnilS{}),
	"Stail":  reflect.TypeOf(Stail{}),
	"Sptr":   reflect.TypeOf(Sptr{}),
	"Snest":  reflect.TypeOf(Snest{}),
	"Sraw":   reflect.TypeOf(Sraw{}),
	"Sbool":  reflect.TypeOf(Sbool{}),
	"EthTx":  reflect.TypeOf(EthTx{}),
}

var typeNames []string

func init() {
	for n := range catalogue {
		typeNames = append(typeNames, n)
	}
	sort.Strings(typeNames)
}
