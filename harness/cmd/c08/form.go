package main

import (
	"encoding/binary"
	"fmt"
	"math/big"
	"math/rand"
	"reflect"

	"com.tuntun.rangers/node/src/storage/rlp"
	"verif/harness/internal/codecutil"
)

// The neutral "typed form" of a Go value, as logged for spec/RlpTrace.tla:
//
//	{"k":"u","b":[...]}  unsigned integer: fixed 8 big-endian bytes (big.Int: a 0 byte + magnitude)
//	{"k":"o","v":bool}   bool
//	{"k":"b","b":[...]}  []byte, string, [N]byte
//	{"k":"l","e":[...]}  slice, array, struct (encoded fields in order)
//	{"k":"z"}            nil pointer / nil interface
//	{"k":"r","b":[...]}  rlp.RawValue
//
// It is a projection of the in-memory value, not an encoding: integers keep
// their full width, nothing is length-prefixed.
type form = map[string]interface{}

var (
	bigPtrType = reflect.TypeOf((*big.Int)(nil))
	bigType    = reflect.TypeOf(big.Int{})
	rawType    = reflect.TypeOf(rlp.RawValue(nil))
)

func errForm() form { return form{"k": "err"} }

func bigForm(i *big.Int) form {
	if i.Sign() < 0 {
		// not encodable (rlp refuses negative integers): only occurs in values offered to make an encode fail
		return form{"k": "neg", "b": codecutil.Ints(append([]byte{0}, i.Bytes()...))}
	}
	return form{"k": "u", "b": codecutil.Ints(append([]byte{0}, i.Bytes()...))}
}

func isByteType(t reflect.Type) bool { return t.Kind() == reflect.Uint8 }

// encodedFields lists the struct fields rlp encodes (exported, not tagged "-").
func encodedFields(t reflect.Type) []int {
	var idx []int
	for i := 0; i < t.NumField(); i++ {
		f := t.Field(i)
		if f.PkgPath != "" || f.Tag.Get("rlp") == "-" {
			continue
		}
		idx = append(idx, i)
	}
	return idx
}

func formOf(v reflect.Value) form {
	t := v.Type()
	switch {
	case t == rawType:
		return form{"k": "r", "b": codecutil.Ints(v.Bytes())}
	case t == bigPtrType:
		if v.IsNil() {
			return form{"k": "z"}
		}
		return bigForm(v.Interface().(*big.Int))
	case t == bigType:
		i := v.Interface().(big.Int)
		return bigForm(&i)
	}
	switch t.Kind() {
	case reflect.Uint8, reflect.Uint16, reflect.Uint32, reflect.Uint64, reflect.Uint:
		var b [8]byte
		binary.BigEndian.PutUint64(b[:], v.Uint())
		return form{"k": "u", "b": codecutil.Ints(b[:])}
	case reflect.Bool:
		return form{"k": "o", "v": v.Bool()}
	case reflect.String:
		return form{"k": "b", "b": codecutil.Ints([]byte(v.String()))}
	case reflect.Slice, reflect.Array:
		if isByteType(t.Elem()) {
			b := make([]byte, v.Len())
			for i := range b {
				b[i] = byte(v.Index(i).Uint())
			}
			return form{"k": "b", "b": codecutil.Ints(b)}
		}
		e := make([]interface{}, 0, v.Len())
		for i := 0; i < v.Len(); i++ {
			e = append(e, formOf(v.Index(i)))
		}
		return form{"k": "l", "e": e}
	case reflect.Struct:
		e := make([]interface{}, 0)
		for _, i := range encodedFields(t) {
			e = append(e, formOf(v.Field(i)))
		}
		return form{"k": "l", "e": e}
	case reflect.Ptr:
		if v.IsNil() {
			return form{"k": "z"}
		}
		return formOf(v.Elem())
	case reflect.Interface:
		if v.IsNil() {
			return form{"k": "z"}
		}
		return formOf(v.Elem())
	}
	panic(fmt.Sprintf("formOf: unsupported type %v", t))
}

func formBytes(f form) []byte {
	raw, _ := f["b"].([]interface{})
	out := make([]byte, len(raw))
	for i, x := range raw {
		out[i] = byte(x.(float64))
	}
	return out
}

func formElems(f form) []form {
	raw, _ := f["e"].([]interface{})
	out := make([]form, len(raw))
	for i, x := range raw {
		out[i] = x.(map[string]interface{})
	}
	return out
}

// build constructs the Go value of type t described by a typed form (the
// inverse of formOf; used for TLC-generated values).
func build(t reflect.Type, f form) reflect.Value {
	k, _ := f["k"].(string)
	v := reflect.New(t).Elem()
	switch {
	case t == rawType:
		v.SetBytes(formBytes(f))
		return v
	case t == bigPtrType:
		if k == "z" {
			return v
		}
		i := new(big.Int).SetBytes(formBytes(f))
		if k == "neg" {
			i.Neg(i)
		}
		v.Set(reflect.ValueOf(i))
		return v
	case t == bigType:
		i := new(big.Int).SetBytes(formBytes(f))
		if k == "neg" {
			i.Neg(i)
		}
		v.Set(reflect.ValueOf(*i))
		return v
	}
	switch t.Kind() {
	case reflect.Uint8, reflect.Uint16, reflect.Uint32, reflect.Uint64, reflect.Uint:
		b := formBytes(f)
		var u uint64
		for _, x := range b {
			u = u<<8 | uint64(x)
		}
		v.SetUint(u)
	case reflect.Bool:
		v.SetBool(f["v"].(bool))
	case reflect.String:
		v.SetString(string(formBytes(f)))
	case reflect.Slice:
		if isByteType(t.Elem()) {
			v.SetBytes(formBytes(f))
			return v
		}
		es := formElems(f)
		s := reflect.MakeSlice(t, len(es), len(es))
		for i, e := range es {
			s.Index(i).Set(build(t.Elem(), e))
		}
		v.Set(s)
	case reflect.Array:
		if isByteType(t.Elem()) {
			b := formBytes(f)
			if len(b) != t.Len() {
				panic("build: array length mismatch")
			}
			for i, x := range b {
				v.Index(i).SetUint(uint64(x))
			}
			return v
		}
		es := formElems(f)
		if len(es) != t.Len() {
			panic("build: array length mismatch")
		}
		for i, e := range es {
			v.Index(i).Set(build(t.Elem(), e))
		}
	case reflect.Struct:
		es := formElems(f)
		idx := encodedFields(t)
		if len(es) != len(idx) {
			panic("build: struct field count mismatch")
		}
		for j, i := range idx {
			v.Field(i).Set(build(t.Field(i).Type, es[j]))
		}
	case reflect.Ptr:
		if k == "z" {
			return v
		}
		p := reflect.New(t.Elem())
		p.Elem().Set(build(t.Elem(), f))
		v.Set(p)
	case reflect.Interface:
		switch k {
		case "z":
		case "b":
			v.Set(reflect.ValueOf(formBytes(f)))
		case "l":
			es := formElems(f)
			s := make([]interface{}, len(es))
			for i, e := range es {
				x := build(t, e)
				if !x.IsNil() {
					s[i] = x.Interface()
				}
			}
			v.Set(reflect.ValueOf(s))
		default:
			panic("build: bad interface form " + k)
		}
	default:
		panic(fmt.Sprintf("build: unsupported type %v", t))
	}
	return v
}

// ------------------------------------------------------------ random values

var byteLens = []int{0, 1, 1, 2, 3, 8, 20, 32, 33, 54, 55, 56, 57, 60, 255, 256, 300}

func randBytes(rng *rand.Rand, depth int) []byte {
	n := byteLens[rng.Intn(len(byteLens))]
	if depth > 0 && n > 60 {
		n = rng.Intn(60)
	}
	b := make([]byte, n)
	switch rng.Intn(4) {
	case 0: // zeros
	case 1:
		for i := range b {
			b[i] = byte(rng.Intn(256))
		}
	case 2:
		for i := range b {
			b[i] = []byte{0, 1, 0x7f, 0x80, 0x81, 0xb7, 0xb8, 0xc0, 0xf7, 0xf8, 0xff}[rng.Intn(11)]
		}
	default:
		for i := range b {
			b[i] = 0xff
		}
	}
	return b
}

func randUint(rng *rand.Rand, bits int) uint64 {
	var u uint64
	switch rng.Intn(5) {
	case 0:
		u = uint64(rng.Intn(3))
	case 1:
		u = uint64(126 + rng.Intn(4))
	case 2:
		u = uint64(1)<<uint(rng.Intn(64)) - uint64(rng.Intn(2))
	case 3:
		u = ^uint64(0) >> uint(rng.Intn(64))
	default:
		u = rng.Uint64()
	}
	if bits < 64 {
		u &= uint64(1)<<uint(bits) - 1
	}
	return u
}

func randBig(rng *rand.Rand) *big.Int {
	switch rng.Intn(4) {
	case 0:
		return new(big.Int).SetUint64(randUint(rng, 64))
	case 1:
		return new(big.Int).Lsh(big.NewInt(1), uint(rng.Intn(520)))
	default:
		return new(big.Int).SetBytes(randBytes(rng, 1))
	}
}

func randIface(rng *rand.Rand, depth int) interface{} {
	if depth >= 3 || rng.Intn(3) > 0 {
		return randBytes(rng, depth+1)
	}
	n := rng.Intn(4)
	s := make([]interface{}, n)
	for i := range s {
		s[i] = randIface(rng, depth+1)
	}
	return s
}

// randValue fills a value of type t.  nilable: whether a nil pointer at this
// position survives an encode/decode round trip by the documented rules.
func randValue(rng *rand.Rand, t reflect.Type, depth int, tag string) reflect.Value {
	v := reflect.New(t).Elem()
	switch {
	case t == rawType:
		v.SetBytes(miniEnc(randIface(rng, 1)))
		return v
	case t == bigPtrType:
		if rng.Intn(6) == 0 {
			return v
		}
		v.Set(reflect.ValueOf(randBig(rng)))
		return v
	case t == bigType:
		v.Set(reflect.ValueOf(*randBig(rng)))
		return v
	}
	switch t.Kind() {
	case reflect.Uint8, reflect.Uint16, reflect.Uint32, reflect.Uint64, reflect.Uint:
		v.SetUint(randUint(rng, t.Bits()))
	case reflect.Bool:
		v.SetBool(rng.Intn(2) == 0)
	case reflect.String:
		v.SetString(string(randBytes(rng, depth)))
	case reflect.Slice:
		if isByteType(t.Elem()) {
			v.SetBytes(randBytes(rng, depth))
			return v
		}
		n := []int{0, 1, 2, 3, 5, 55, 56}[rng.Intn(7)]
		if depth > 0 && n > 5 {
			n = rng.Intn(4)
		}
		if depth > 3 {
			n = 0 // end of a self-referential tree
		}
		if n == 0 && rng.Intn(2) == 0 {
			return v // nil slice
		}
		s := reflect.MakeSlice(t, n, n)
		for i := 0; i < n; i++ {
			s.Index(i).Set(randValue(rng, t.Elem(), depth+1, ""))
		}
		v.Set(s)
	case reflect.Array:
		for i := 0; i < t.Len(); i++ {
			v.Index(i).Set(randValue(rng, t.Elem(), depth+1, ""))
		}
	case reflect.Struct:
		for _, i := range encodedFields(t) {
			v.Field(i).Set(randValue(rng, t.Field(i).Type, depth+1, t.Field(i).Tag.Get("rlp")))
		}
	case reflect.Ptr:
		// a nil pointer encodes as the empty value of its kind; it decodes back
		// only where that empty value is a legal encoding of the element type
		ek := t.Elem().Kind()
		nilable := tag == "nil" || ek == reflect.Uint64 || ek == reflect.Slice || ek == reflect.Bool || ek == reflect.String
		if tag == "nil" && depth > 4 {
			return v // end of a self-referential chain
		}
		if nilable && rng.Intn(4) == 0 {
			return v
		}
		p := reflect.New(t.Elem())
		p.Elem().Set(randValue(rng, t.Elem(), depth, ""))
		v.Set(p)
	case reflect.Interface:
		if rng.Intn(8) == 0 {
			return v
		}
		v.Set(reflect.ValueOf(randIface(rng, depth)))
	default:
		panic(fmt.Sprintf("randValue: unsupported type %v", t))
	}
	return v
}

// fullValue: a destination that is anything but zero - what a variable holds after it was used
// for a larger value of the type, or a struct initialised with defaults: slices of three
// elements, pointers set, integers non-zero, arrays filled, interfaces holding a list.
func fullValue(t reflect.Type, depth int) reflect.Value {
	v := reflect.New(t).Elem()
	switch {
	case t == rawType:
		v.SetBytes([]byte{0xc3, 0x01, 0x02, 0x03})
		return v
	case t == bigPtrType:
		v.Set(reflect.ValueOf(new(big.Int).Lsh(big.NewInt(0xeeee), 80)))
		return v
	case t == bigType:
		v.Set(reflect.ValueOf(*new(big.Int).Lsh(big.NewInt(0xeeee), 80)))
		return v
	}
	switch t.Kind() {
	case reflect.Uint8, reflect.Uint16, reflect.Uint32, reflect.Uint64, reflect.Uint:
		v.SetUint(0xee)
	case reflect.Bool:
		v.SetBool(true)
	case reflect.String:
		v.SetString("previous content of the destination")
	case reflect.Slice:
		n := 3
		if depth > 2 {
			n = 0
		}
		if isByteType(t.Elem()) {
			v.SetBytes([]byte{0xee, 0xee, 0xee, 0xee, 0xee, 0xee, 0xee})
			return v
		}
		s := reflect.MakeSlice(t, n, n+2)
		for i := 0; i < n; i++ {
			s.Index(i).Set(fullValue(t.Elem(), depth+1))
		}
		v.Set(s)
	case reflect.Array:
		for i := 0; i < t.Len(); i++ {
			v.Index(i).Set(fullValue(t.Elem(), depth+1))
		}
	case reflect.Struct:
		for i := 0; i < t.NumField(); i++ {
			if t.Field(i).PkgPath == "" {
				v.Field(i).Set(fullValue(t.Field(i).Type, depth+1))
			}
		}
	case reflect.Ptr:
		if depth > 2 {
			return v
		}
		p := reflect.New(t.Elem())
		p.Elem().Set(fullValue(t.Elem(), depth+1))
		v.Set(p)
	case reflect.Interface:
		v.Set(reflect.ValueOf([]interface{}{[]byte{0xee}, []interface{}{[]byte{1, 2}}}))
	}
	return v
}
