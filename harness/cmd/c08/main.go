// c08 runs the real RLP package (src/storage/rlp) on TLC-generated cases
// (byte strings over the boundary alphabet, long-form shapes, typed boundary
// values: spec/RlpGen.tla) and on seeded random values / mutated encodings,
// and logs one `Call(in) = out` event per case for spec/RlpTrace.tla, which
// recomputes the reference result.  The driver computes no expected value.
//
// Events
//
//	Decode: in (bytes); res: per catalogue type {t, ok, panic, val, reok, reenc}
//	        from rlp.DecodeBytes + rlp.EncodeToBytes of the decoded value;
//	        split/count: rlp.Split / rlp.CountValues; walk: descent with the
//	        Stream primitives (Kind/List/ListEnd/Bytes) over a reader that
//	        holds 16 more bytes than the declared limit; sdec.T: Stream.Decode
//	        into type T on such a reader (both in "streams"); ops: Kind() then
//	        a seeded random sequence of Stream calls on such a reader; alloc: bytes allocated by all
//	        DecodeBytes calls of the event.
//	Encode: t, val (typed form of the Go value); ok, enc (rlp.EncodeToBytes);
//	        back (DecodeBytes of enc into a fresh value of the type).
//	EncodeFail: t, val: an encode expected to fail (negative integer nested in a
//	        container), run directly before the next Encode event on the same
//	        goroutine (src tlc-seq / random-seq): the encoding of a value must
//	        not depend on what the encoder was asked before.
package main

import (
	"bytes"
	"encoding/json"
	"flag"
	"math/big"
	"fmt"
	"io"
	"math/rand"
	"os"
	"os/exec"
	"path/filepath"
	"reflect"
	"runtime"
	"strconv"
	"syscall"

	"com.tuntun.rangers/node/src/storage/rlp"
	"verif/harness/internal/codecutil"
	"verif/harness/internal/vutil"
)

type tcase struct {
	Op   string `json:"op"` // dec | shape | enc
	In   []int  `json:"in"`
	H    []int  `json:"h"`
	Fill int    `json:"fill"`
	N    int    `json:"n"`
	Tr   []int  `json:"tr"`
	T    string `json:"t"`
	V    form   `json:"v"`
	T1   string `json:"t1"` // encseq: a value whose encoding fails after it has started (t1, v1) ...
	V1   form   `json:"v1"`
	T2   string `json:"t2"` // ... directly followed, on the same goroutine, by an ordinary value (t2, v2)
	V2   form   `json:"v2"`
}

const slack = 16 // bytes available to the reader beyond the declared input

// countingReader counts the bytes handed out; it implements rlp.ByteReader.
type countingReader struct {
	b   []byte
	pos int
}

func (r *countingReader) Read(p []byte) (int, error) {
	if r.pos >= len(r.b) {
		return 0, io.EOF
	}
	n := copy(p, r.b[r.pos:])
	r.pos += n
	return n, nil
}

func (r *countingReader) ReadByte() (byte, error) {
	if r.pos >= len(r.b) {
		return 0, io.EOF
	}
	c := r.b[r.pos]
	r.pos++
	return c, nil
}

func slackReader(in []byte) *countingReader {
	b := make([]byte, len(in)+slack)
	copy(b, in)
	for i := len(in); i < len(b); i++ {
		b[i] = 0x80
	}
	return &countingReader{b: b}
}

// walk decodes one value with the Stream primitives only.
func walk(s *rlp.Stream, depth int) (form, error) {
	kind, _, err := s.Kind()
	if err != nil {
		return nil, err
	}
	if kind != rlp.List {
		b, err := s.Bytes()
		if err != nil {
			return nil, err
		}
		return form{"k": "b", "b": codecutil.Ints(b)}, nil
	}
	if _, err := s.List(); err != nil {
		return nil, err
	}
	elems := make([]interface{}, 0)
	for {
		e, err := walk(s, depth+1)
		if err == rlp.EOL {
			break
		}
		if err != nil {
			return nil, err
		}
		elems = append(elems, e)
	}
	if err := s.ListEnd(); err != nil {
		return nil, err
	}
	return form{"k": "l", "e": elems}, nil
}

func kindName(k rlp.Kind) string {
	switch k {
	case rlp.Byte:
		return "byte"
	case rlp.String:
		return "str"
	case rlp.List:
		return "list"
	}
	return "?"
}

// destStates decodes `in` into non-zero destinations; each entry {n, ok, panic, same, val}: same =
// the value equals the one the fresh decode gave (then val is omitted).
func destStates(name string, in []byte, freshOK bool, fresh form) []interface{} {
	out := make([]interface{}, 0, 2)
	freshJSON, _ := json.Marshal(fresh)
	one := func(n string, dst reflect.Value, times int) {
		var err error
		p, _ := codecutil.Try(func() {
			for i := 0; i < times; i++ {
				err = rlp.DecodeBytes(in, dst.Interface())
			}
		})
		e := map[string]interface{}{"n": n, "ok": !p && err == nil, "panic": p, "same": false, "val": errForm()}
		if !p && err == nil {
			f := formOf(dst.Elem())
			j, _ := json.Marshal(f)
			if freshOK && string(j) == string(freshJSON) {
				e["same"] = true
			} else {
				e["val"] = f
			}
		}
		out = append(out, e)
	}
	t := catalogue[name]
	full := reflect.New(t)
	full.Elem().Set(fullValue(t, 0))
	one("full", full, 1)
	one("twice", full, 1) // the destination that was just used, once more
	return out
}

var meter codecutil.AllocMeter

// the Stream paths: a descent with the primitives, and Stream.Decode into
// several types (untyped, struct, fixed array, nested struct)
var streamModes = []struct{ name, typ string }{
	{"walk", "iface"}, {"sdec.iface", "iface"}, {"sdec.S1", "S1"}, {"sdec.au2", "au2"}, {"sdec.Snest", "Snest"},
}

// current: the input being decoded is noted in a side file before the real
// code runs, so that the orchestrator can name it when the process dies of a
// fatal runtime error (out of memory cannot be recovered in-process).
var current *os.File

func noteCurrent(in []byte, src string) {
	if current == nil {
		return
	}
	b, _ := json.Marshal(map[string]interface{}{"event": "Decode", "src": src, "in": codecutil.Ints(in)})
	current.Truncate(0)
	current.WriteAt(b, 0)
}

func decodeEvent(in []byte, src string) map[string]interface{} {
	noteCurrent(in, src)
	type attempt struct {
		ptr   reflect.Value
		err   error
		panic bool
		msg   string
	}
	atts := make([]attempt, len(typeNames))
	// pass 1 (metered): the decoder alone
	meter.Start()
	for i, name := range typeNames {
		a := &atts[i]
		a.ptr = reflect.New(catalogue[name])
		a.panic, a.msg = codecutil.Try(func() { a.err = rlp.DecodeBytes(in, a.ptr.Interface()) })
	}
	alloc := meter.Stop()
	// pass 2: project the decoded values and re-encode them
	res := make([]interface{}, 0, len(typeNames))
	for i, name := range typeNames {
		a := &atts[i]
		r := map[string]interface{}{"t": name, "ok": false, "panic": a.panic, "val": errForm(), "reok": false, "reenc": []int{}}
		if a.panic {
			r["msg"] = a.msg
		} else if a.err == nil {
			r["ok"] = true
			r["val"] = formOf(a.ptr.Elem())
			// destination state: the same bytes into a destination that is not zero - (full) one that
			// holds a larger value of the type / defaults, (twice) the same destination a second time
			r["dest"] = destStates(name, in, true, r["val"].(form))
			var enc []byte
			var err error
			p, msg := codecutil.Try(func() { enc, err = rlp.EncodeToBytes(a.ptr.Interface()) })
			if p {
				r["panic"] = true
				r["msg"] = "re-encode: " + msg
			} else if err == nil {
				r["reok"] = true
				r["reenc"] = codecutil.Ints(enc)
			}
		}
		if _, ok := r["dest"]; !ok {
			r["dest"] = destStates(name, in, false, nil)
		}
		res = append(res, r)
	}
	ev := map[string]interface{}{"event": "Decode", "src": src, "in": codecutil.Ints(in), "alloc": alloc, "res": res}
	// rlp.Split / rlp.CountValues (raw.go)
	{
		sp := map[string]interface{}{"ok": false, "panic": false, "kind": "", "content": []int{}, "rest": []int{}}
		var k rlp.Kind
		var content, rest []byte
		var err error
		p, _ := codecutil.Try(func() { k, content, rest, err = rlp.Split(in) })
		sp["panic"] = p
		if !p && err == nil {
			sp["ok"] = true
			sp["kind"] = kindName(k)
			sp["content"] = codecutil.Ints(content)
			sp["rest"] = codecutil.Ints(rest)
		}
		ev["split"] = sp
		cn := map[string]interface{}{"ok": false, "panic": false, "n": 0}
		var n int
		p, _ = codecutil.Try(func() { n, err = rlp.CountValues(in) })
		cn["panic"] = p
		if !p && err == nil {
			cn["ok"] = true
			cn["n"] = n
		}
		ev["count"] = cn
	}
	// Stream primitives and Stream.Decode over a reader with slack bytes
	streams := make([]interface{}, 0, len(streamModes))
	for _, mode := range streamModes {
		cr := slackReader(in)
		w := map[string]interface{}{"n": mode.name, "t": mode.typ, "ok": false, "panic": false, "val": errForm(), "read": 0}
		var f form
		var err error
		p, _ := codecutil.Try(func() {
			if len(in) == 0 {
				// an input limit of 0 means "no limit" to NewStream; the empty input is
				// offered as an empty reader instead
				cr.b = cr.b[:0]
			}
			s := rlp.NewStream(cr, uint64(len(in)))
			if mode.name == "walk" {
				f, err = walk(s, 0)
			} else {
				ptr := reflect.New(catalogue[mode.typ])
				err = s.Decode(ptr.Interface())
				if err == nil {
					f = formOf(ptr.Elem())
				}
			}
		})
		w["panic"] = p
		w["read"] = cr.pos
		if !p && err == nil {
			w["ok"] = true
			w["val"] = f
		}
		streams = append(streams, w)
	}
	ev["streams"] = streams
	ev["ops"] = streamOps(in)
	return ev
}

var opsRng *rand.Rand

// streamOps: Kind() followed by a seeded random sequence of Stream API calls
// (also ones that make no sense at that position) over a reader with slack.
func streamOps(in []byte) map[string]interface{} {
	cr := slackReader(in)
	if len(in) == 0 {
		cr.b = cr.b[:0]
	}
	out := map[string]interface{}{"panic": false, "read": 0, "calls": []string{},
		"first": map[string]interface{}{"ok": false, "kind": "", "size": 0}}
	calls := make([]string, 0, 12)
	p, _ := codecutil.Try(func() {
		s := rlp.NewStream(cr, uint64(len(in)))
		k, size, err := s.Kind()
		if err == nil {
			if size > 2000000000 {
				size = 2000000000
			}
			out["first"] = map[string]interface{}{"ok": true, "kind": kindName(k), "size": int(size)}
		}
		n := 1 + opsRng.Intn(12)
		for i := 0; i < n; i++ {
			var name string
			var e error
			switch opsRng.Intn(7) {
			case 0:
				name = "List"
				_, e = s.List()
			case 1:
				name = "ListEnd"
				e = s.ListEnd()
			case 2:
				name = "Bytes"
				_, e = s.Bytes()
			case 3:
				name = "Uint"
				_, e = s.Uint()
			case 4:
				name = "Raw"
				_, e = s.Raw()
			case 5:
				name = "Bool"
				_, e = s.Bool()
			default:
				name = "Kind"
				_, _, e = s.Kind()
			}
			if e != nil {
				name += ":err"
			}
			calls = append(calls, name)
		}
	})
	out["panic"] = p
	out["read"] = cr.pos
	out["calls"] = calls
	return out
}

func encodeEvent(name string, v reflect.Value, src string) map[string]interface{} {
	return encodeAfter("", reflect.Value{}, name, v, src)[1]
}

// encodeAfter encodes the value (name, v) and logs it as an Encode event.  When
// badName is set, an encode that is expected to fail (an unsupported value nested
// in a container, so that output has been produced when the failure is noticed)
// runs immediately before it on the same goroutine: the encoder keeps its buffers
// in a sync.Pool (per P), so the ordinary encode works with the buffer the failed
// one handed back.  Returns {EncodeFail event or nil, Encode event}.
func encodeAfter(badName string, bad reflect.Value, name string, v reflect.Value, src string) [2]map[string]interface{} {
	t := catalogue[name]
	ptr := reflect.New(t)
	ptr.Elem().Set(v)
	ev := map[string]interface{}{"event": "Encode", "src": src, "t": name, "val": formOf(ptr.Elem()),
		"ok": false, "panic": false, "enc": []int{}, "back": map[string]interface{}{"ok": false, "panic": false, "val": errForm()}}
	var fail map[string]interface{}
	var badPtr reflect.Value
	if badName != "" {
		badPtr = reflect.New(catalogue[badName])
		badPtr.Elem().Set(bad)
		fail = map[string]interface{}{"event": "EncodeFail", "src": src, "t": badName, "val": formOf(badPtr.Elem()), "ok": false, "panic": false}
	}
	var enc []byte
	var err, berr error
	var bp bool
	// the two encodes back to back: nothing between them that could yield the P or start a GC cycle
	p, msg := codecutil.Try(func() {
		if badName != "" {
			bp, _ = codecutil.Try(func() { _, berr = rlp.EncodeToBytes(badPtr.Interface()) })
		}
		enc, err = rlp.EncodeToBytes(ptr.Interface())
	})
	if fail != nil {
		fail["panic"] = bp
		fail["ok"] = !bp && berr == nil
	}
	if p {
		ev["panic"] = true
		ev["msg"] = msg
		return [2]map[string]interface{}{fail, ev}
	}
	if err != nil {
		return [2]map[string]interface{}{fail, ev}
	}
	ev["ok"] = true
	ev["enc"] = codecutil.Ints(enc)
	ev["alt"] = altEncodings(name, ptr)
	back := reflect.New(t)
	var derr error
	p, _ = codecutil.Try(func() { derr = rlp.DecodeBytes(enc, back.Interface()) })
	bk := map[string]interface{}{"ok": false, "panic": p, "val": errForm()}
	if !p && derr == nil {
		bk["ok"] = true
		bk["val"] = formOf(back.Elem())
	}
	ev["back"] = bk
	return [2]map[string]interface{}{fail, ev}
}

// altEncodings: the same value through the other entry points and shapes of use: passed by value
// (not addressable), inside an interface{} slice, through Encode(io.Writer) and EncodeToReader.
// Each entry: {"n": name, "ok": bool, "panic": bool, "b": bytes}; "wrap" says the value sits in a
// one-element list.
func altEncodings(name string, ptr reflect.Value) []interface{} {
	out := make([]interface{}, 0, 4)
	run := func(n string, f func() ([]byte, error)) {
		var b []byte
		var err error
		p, _ := codecutil.Try(func() { b, err = f() })
		e := map[string]interface{}{"n": n, "ok": !p && err == nil, "panic": p, "b": []int{}}
		if !p && err == nil {
			e["b"] = codecutil.Ints(b)
		}
		out = append(out, e)
	}
	t := ptr.Type().Elem()
	nilPtr := t.Kind() == reflect.Ptr && ptr.Elem().IsNil()
	if t.Kind() != reflect.Interface && !noByValue[name] && !nilPtr {
		v := ptr.Elem().Interface()
		run("byvalue", func() ([]byte, error) { return rlp.EncodeToBytes(v) })
		run("iniface", func() ([]byte, error) { return rlp.EncodeToBytes([]interface{}{v}) })
	}
	run("writer", func() ([]byte, error) {
		var buf bytes.Buffer
		err := rlp.Encode(&buf, ptr.Interface())
		return buf.Bytes(), err
	})
	run("reader", func() ([]byte, error) {
		_, r, err := rlp.EncodeToReader(ptr.Interface())
		if err != nil {
			return nil, err
		}
		return io.ReadAll(r)
	})
	return out
}

// concurrent: K goroutines encode (by pointer, by value, in an interface) and decode DIFFERENT
// values of the SAME type at the same time, sharing the codec's cached type information.  The
// sequential events of each value are emitted first; of the concurrent rounds only those whose
// result differs from the sequential one (or that panicked) are emitted - as ordinary Encode
// events, judged by the monitor against the reference like any other.
func concurrent(tr *vutil.Trace, name string, vals []reflect.Value, rounds int) (emitted, ran int) {
	k := len(vals)
	seq := make([]map[string]interface{}, k)
	seqKey := make([]string, k)
	key := func(ev map[string]interface{}) string {
		b, _ := json.Marshal([]interface{}{ev["ok"], ev["panic"], ev["enc"], ev["alt"], ev["back"]})
		return string(b)
	}
	for i, v := range vals {
		seq[i] = encodeAfter("", reflect.Value{}, name, v, "conc-seq")[1]
		seqKey[i] = key(seq[i])
		tr.Emit(seq[i])
		emitted++
	}
	// the sequential results each goroutine compares with
	type ref struct {
		ptr               reflect.Value
		val               interface{}
		byval             bool
		enc, encV, encIf  []byte
		backKey           string
	}
	refs := make([]ref, k)
	t := catalogue[name]
	for i, v := range vals {
		r := ref{ptr: reflect.New(t)}
		r.ptr.Elem().Set(v)
		nilPtr := t.Kind() == reflect.Ptr && r.ptr.Elem().IsNil()
		r.byval = t.Kind() != reflect.Interface && !noByValue[name] && !nilPtr
		if ok, _ := seq[i]["ok"].(bool); !ok {
			return // nothing to compare with (the sequential encode already failed and was emitted)
		}
		r.enc = codecutil.FromInts(seq[i]["enc"].([]int))
		if r.byval {
			r.val = r.ptr.Elem().Interface()
			for _, a := range seq[i]["alt"].([]interface{}) {
				m := a.(map[string]interface{})
				if ok, _ := m["ok"].(bool); ok {
					switch m["n"] {
					case "byvalue":
						r.encV = codecutil.FromInts(m["b"].([]int))
					case "iniface":
						r.encIf = codecutil.FromInts(m["b"].([]int))
					}
				}
			}
		}
		bk, _ := json.Marshal(seq[i]["back"])
		r.backKey = string(bk)
		refs[i] = r
	}
	type res struct {
		i  int
		ev map[string]interface{}
		n  int
	}
	for r := 0; r < rounds; r++ {
		ch := make(chan res, k)
		start := make(chan struct{})
		for i := range vals {
			go func(i int) {
				rf := refs[i]
				var bad map[string]interface{}
				n := 0
				<-start
				p, msg := codecutil.Try(func() {
					for it := 0; it < 150 && bad == nil; it++ {
						n++
						b1, e1 := rlp.EncodeToBytes(rf.ptr.Interface())
						var b2, b3 []byte
						var e2, e3 error
						if rf.byval {
							b2, e2 = rlp.EncodeToBytes(rf.val)
							b3, e3 = rlp.EncodeToBytes([]interface{}{rf.val})
						}
						same := e1 == nil && bytes.Equal(b1, rf.enc) &&
							(!rf.byval || rf.encV == nil || (e2 == nil && bytes.Equal(b2, rf.encV))) &&
							(!rf.byval || rf.encIf == nil || (e3 == nil && bytes.Equal(b3, rf.encIf)))
						if same && it%16 == 0 {
							// decoding at the same time as the others
							back := reflect.New(t)
							derr := rlp.DecodeBytes(rf.enc, back.Interface())
							bk := map[string]interface{}{"ok": derr == nil, "panic": false, "val": errForm()}
							if derr == nil {
								bk["val"] = formOf(back.Elem())
							}
							if j, _ := json.Marshal(bk); string(j) != rf.backKey {
								bad = map[string]interface{}{"event": "Encode", "src": "conc", "t": name, "val": seq[i]["val"], "ok": true,
									"panic": false, "enc": seq[i]["enc"], "alt": []interface{}{}, "back": bk}
							}
							continue
						}
						if !same {
							alt := []interface{}{}
							if rf.byval {
								alt = append(alt, map[string]interface{}{"n": "byvalue", "ok": e2 == nil, "panic": false, "b": codecutil.Ints(b2)},
									map[string]interface{}{"n": "iniface", "ok": e3 == nil, "panic": false, "b": codecutil.Ints(b3)})
							}
							bad = map[string]interface{}{"event": "Encode", "src": "conc", "t": name, "val": seq[i]["val"], "ok": e1 == nil,
								"panic": false, "enc": codecutil.Ints(b1), "alt": alt, "back": seq[i]["back"]}
						}
					}
				})
				if p {
					bad = map[string]interface{}{"event": "Encode", "src": "conc", "t": name, "val": seq[i]["val"], "ok": false,
						"panic": true, "msg": msg, "enc": []int{}, "back": seq[i]["back"]}
				}
				ch <- res{i, bad, n}
			}(i)
		}
		close(start)
		for j := 0; j < k; j++ {
			x := <-ch
			ran += x.n
			if x.ev != nil && emitted < 4000 {
				tr.Emit(x.ev)
				emitted++
			}
		}
	}
	return
}

// firstUseType: the type round k of the first-use family works on (the wide and nested ones more often).
func firstUseType(k int) string {
	heavy := []string{"Wide", "EthTx", "Snest", "Sif", "Senc", "RB", "RTree", "RArr", "Sptr", "SnilS"}
	if k%3 != 2 {
		return heavy[(k/3)%len(heavy)]
	}
	return typeNames[(k/3)%len(typeNames)]
}

// firstUseRound runs in a fresh process: nothing has touched the codec yet.  Eight goroutines are
// released together and each encodes and decodes its own value of one type - the first use of that
// type (and of its field types) in the process.  Every result is logged as an ordinary Encode event.
func firstUseRound(out string, k int) {
	name := firstUseType(k)
	rng := rand.New(rand.NewSource(vutil.Seed()*7919 + int64(k)))
	t := catalogue[name]
	vals := make([]reflect.Value, 8)
	for i := range vals {
		vals[i] = randValue(rng, t, 0, "")
	}
	evs := make([]map[string]interface{}, len(vals))
	start := make(chan struct{})
	done := make(chan int, len(vals))
	for i := range vals {
		go func(i int) {
			<-start
			evs[i] = encodeAfter("", reflect.Value{}, name, vals[i], "firstuse")[1]
			done <- i
		}(i)
	}
	close(start)
	for range vals {
		<-done
	}
	tr := vutil.NewTrace(out)
	for _, ev := range evs {
		tr.Emit(ev)
	}
	tr.Close()
}

// badValue: a value of a container type with a negative big integer inside, after
// at least one encodable field (so the failing encode has produced output).
func badValue(rng *rand.Rand) (string, reflect.Value) {
	neg := new(big.Int).Neg(big.NewInt(int64(1 + rng.Intn(1000000))))
	switch rng.Intn(3) {
	case 0:
		p := uint64(300)
		return "Sptr", reflect.ValueOf(Sptr{P: &p, Q: neg})
	case 1:
		return "EthTx", reflect.ValueOf(EthTx{AccountNonce: 9, Price: big.NewInt(1), GasLimit: 21000, Amount: neg, Payload: []byte{1, 2, 3},
			V: big.NewInt(27), R: big.NewInt(1), S: big.NewInt(1)})
	}
	return "Sptr", reflect.ValueOf(Sptr{Q: neg})
}

// miniEnc is a minimal independent RLP encoder of interface{} trees
// ([]byte | []interface{}), used only to produce inputs (raw values, seeds of
// mutation), never to judge.
func miniEnc(x interface{}) []byte {
	head := func(n int, off byte) []byte {
		if n < 56 {
			return []byte{off + byte(n)}
		}
		var l []byte
		for m := n; m > 0; m >>= 8 {
			l = append([]byte{byte(m)}, l...)
		}
		return append([]byte{off + 55 + byte(len(l))}, l...)
	}
	switch v := x.(type) {
	case []byte:
		if len(v) == 1 && v[0] < 0x80 {
			return []byte{v[0]}
		}
		return append(head(len(v), 0x80), v...)
	case []interface{}:
		var body []byte
		for _, e := range v {
			body = append(body, miniEnc(e)...)
		}
		return append(head(len(body), 0xc0), body...)
	}
	panic("miniEnc")
}

// mutate derives a (mostly invalid) byte string from a valid encoding.
func mutate(rng *rand.Rand, b []byte) []byte {
	out := append([]byte{}, b...)
	switch rng.Intn(8) {
	case 0: // flip a bit
		if len(out) > 0 {
			out[rng.Intn(len(out))] ^= 1 << uint(rng.Intn(8))
		}
	case 1: // replace a byte by a boundary byte
		if len(out) > 0 {
			out[rng.Intn(len(out))] = []byte{0, 1, 0x7f, 0x80, 0x81, 0xb7, 0xb8, 0xb9, 0xbf, 0xc0, 0xc1, 0xf7, 0xf8, 0xf9, 0xff}[rng.Intn(15)]
		}
	case 2: // truncate
		if len(out) > 0 {
			out = out[:rng.Intn(len(out))]
		}
	case 3: // append
		out = append(out, byte(rng.Intn(256)))
	case 4: // delete a byte
		if len(out) > 0 {
			i := rng.Intn(len(out))
			out = append(out[:i], out[i+1:]...)
		}
	case 5: // insert a byte
		i := rng.Intn(len(out) + 1)
		out = append(out[:i], append([]byte{byte(rng.Intn(256))}, out[i:]...)...)
	case 6: // bump the first byte (header) up or down
		if len(out) > 0 {
			out[0] += byte(rng.Intn(3)) - 1
		}
	default: // unchanged (valid)
	}
	return out
}

func main() {
	out := flag.String("out", "trace.ndjson", "trace file")
	casesPath := flag.String("cases", "", "JSON file: list of TLC-generated cases")
	nRandom := flag.Int("random", 0, "number of seeded random values (each also yields mutated encodings)")
	salt := flag.Int64("salt", 0, "extra seed salt (shard number)")
	curPath := flag.String("current", "", "side file naming the input being decoded")
	concRounds := flag.Int("conc", 0, "concurrency family: rounds per type (K goroutines each)")
	firstUse := flag.Int("firstuse", 0, "first-use family: number of fresh processes (one type each, 8 goroutines released together)")
	firstUseChild := flag.Int("firstuse-child", -1, "internal: run as the fresh process number k of the first-use family")
	flag.Parse()
	// a decoder that trusts a declared size must not take the machine down with it
	syscall.Setrlimit(syscall.RLIMIT_AS, &syscall.Rlimit{Cur: 8 << 30, Max: 8 << 30})
	if *curPath != "" {
		f, err := os.Create(*curPath)
		if err != nil {
			vutil.Fatalf("create %s: %v", *curPath, err)
		}
		current = f
	}
	outAbs, _ := filepath.Abs(*out)
	if *firstUseChild >= 0 {
		firstUseRound(outAbs, *firstUseChild)
		return
	}
	// warm-up: the one-time generation of the type information of the whole zoo is not part of what
	// a decode of a given input allocates (the allocation bound is per input); first uses under
	// concurrency are the business of the first-use family (fresh processes)
	for _, name := range typeNames {
		p := reflect.New(catalogue[name])
		codecutil.Try(func() { rlp.DecodeBytes([]byte{0xc0}, p.Interface()) })
		codecutil.Try(func() { rlp.EncodeToBytes(reflect.New(catalogue[name]).Interface()) })
	}
	var cases []tcase
	codecutil.ReadCases(*casesPath, &cases)
	opsRng = vutil.Rng(88 + 1000**salt)
	tr := vutil.NewTrace(outAbs)
	nDec, nEnc, nFail := 0, 0, 0
	for _, c := range cases {
		switch c.Op {
		case "dec":
			tr.Emit(decodeEvent(codecutil.FromInts(c.In), "tlc"))
			nDec++
		case "shape":
			b := append([]byte{}, codecutil.FromInts(c.H)...)
			for i := 0; i < c.N; i++ {
				b = append(b, byte(c.Fill))
			}
			b = append(b, codecutil.FromInts(c.Tr)...)
			tr.Emit(decodeEvent(b, "tlc-shape"))
			nDec++
		case "enc":
			t, ok := catalogue[c.T]
			if !ok {
				vutil.Fatalf("unknown type %q in case", c.T)
			}
			ev := encodeEvent(c.T, build(t, c.V), "tlc")
			tr.Emit(ev)
			nEnc++
			// the real encoding is also offered to every decoder
			if enc, ok := ev["enc"].([]int); ok && len(enc) > 0 && len(enc) <= 1200 {
				tr.Emit(decodeEvent(codecutil.FromInts(enc), "tlc-enc"))
				nDec++
			}
		case "encseq":
			t1, ok1 := catalogue[c.T1]
			t2, ok2 := catalogue[c.T2]
			if !ok1 || !ok2 {
				vutil.Fatalf("unknown type in encseq case")
			}
			// several repetitions: the pool hands the same buffer back only while the
			// goroutine stays on its P and no GC cycle clears the pool
			for rep := 0; rep < 3; rep++ {
				evs := encodeAfter(c.T1, build(t1, c.V1), c.T2, build(t2, c.V2), "tlc-seq")
				tr.Emit(evs[0])
				tr.Emit(evs[1])
				nFail++
				nEnc++
			}
		default:
			vutil.Fatalf("unknown case op %q", c.Op)
		}
	}
	rng := vutil.Rng(8 + 1000**salt)
	_ = rng
	for i := 0; i < *nRandom; i++ {
		name := typeNames[rng.Intn(len(typeNames))]
		v := randValue(rng, catalogue[name], 0, "")
		var ev map[string]interface{}
		if rng.Intn(3) == 0 {
			// history: a failing encode directly before this one
			bn, bv := badValue(rng)
			evs := encodeAfter(bn, bv, name, v, "random-seq")
			tr.Emit(evs[0])
			nFail++
			ev = evs[1]
		} else {
			ev = encodeEvent(name, v, "random")
		}
		tr.Emit(ev)
		nEnc++
		// mutated encodings: from an independently produced valid encoding and
		// from the real encoder's output
		seed := miniEnc(randIface(rng, 0))
		if enc, ok := ev["enc"].([]int); ok && len(enc) > 0 && rng.Intn(2) == 0 {
			seed = codecutil.FromInts(enc)
		}
		if len(seed) > 1200 {
			seed = seed[:1200]
		}
		tr.Emit(decodeEvent(mutate(rng, seed), "random-mutation"))
		nDec++
	}
	// concurrency family: the values of the TLC enc cases of this shard, grouped by type, plus
	// seeded random ones; once with all cores, once with GOMAXPROCS=1
	concRan, concEmitted := 0, 0
	if *concRounds > 0 {
		byType := map[string][]reflect.Value{}
		for _, c := range cases {
			if c.Op == "enc" && len(byType[c.T]) < 8 {
				byType[c.T] = append(byType[c.T], build(catalogue[c.T], c.V))
			}
		}
		for _, name := range typeNames {
			for len(byType[name]) < 8 {
				byType[name] = append(byType[name], randValue(rng, catalogue[name], 0, ""))
			}
			for _, procs := range []int{runtime.NumCPU(), 1} {
				old := runtime.GOMAXPROCS(procs)
				e, r := concurrent(tr, name, byType[name], *concRounds)
				runtime.GOMAXPROCS(old)
				concEmitted += e
				concRan += r
				nEnc += e
			}
		}
	}
	// first-use family: the very first use of a type in a process, by several goroutines at once -
	// one fresh process (this binary re-executed) per round
	nFirst := 0
	for k := 0; k < *firstUse; k++ {
		cf := outAbs + fmt.Sprintf(".first%04d", k)
		cmd := exec.Command(os.Args[0], "--firstuse-child", strconv.Itoa(k+int(*salt)*100000), "--out", cf)
		cmd.Env = os.Environ()
		if outb, err := cmd.CombinedOutput(); err != nil {
			// the child died of something recover() cannot catch: report it as a panic of that type
			name := firstUseType(k + int(*salt)*100000)
			tail := string(outb)
			if len(tail) > 300 {
				tail = tail[:300]
			}
			tr.Emit(map[string]interface{}{"event": "Encode", "src": "firstuse", "t": name, "val": errForm(), "ok": false, "panic": true,
				"msg": "process died: " + tail, "enc": []int{}, "back": map[string]interface{}{"ok": false, "panic": false, "val": errForm()}})
			nEnc++
			nFirst++
			continue
		}
		b, err := os.ReadFile(cf)
		if err != nil {
			vutil.Fatalf("first-use child trace: %v", err)
		}
		for _, line := range bytes.Split(b, []byte("\n")) {
			if len(line) == 0 {
				continue
			}
			var ev map[string]interface{}
			if err := json.Unmarshal(line, &ev); err != nil {
				vutil.Fatalf("first-use child event: %v", err)
			}
			tr.Emit(ev)
			nEnc++
			nFirst++
		}
		os.Remove(cf)
	}
	tr.Close()
	fmt.Printf("c08: firstuse_events=%d conc_encodes=%d conc_events=%d ", nFirst, concRan, concEmitted)
	fmt.Printf("decode_events=%d encode_events=%d fail_events=%d events=%d types=%d\n", nDec, nEnc, nFail, tr.N, len(typeNames))
}
