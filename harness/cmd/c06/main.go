// c06 executes transactions of every value-moving kind through the node's real
// executors, one per block (package ledgerops), and records after every block
// ALL balance slots of the native token contract for spec/LedgerTrace.tla.
package main

import (
	"com.tuntun.rangers/node/src/common"
	"encoding/json"
	"flag"
	"fmt"
	"os"
	"path/filepath"

	"verif/harness/internal/execdrv"
	"verif/harness/internal/ledgerops"
	"verif/harness/internal/vutil"
)

func main() {
	out := flag.String("out", "trace.ndjson", "")
	script := flag.String("script", "", "TLC op sequences (Ledger HIST lines)")
	nRandom := flag.Int("random", 0, "seeded random histories with odd amount strings and gas limits")
	length := flag.Int("len", 12, "")
	scratch := flag.String("scratch", "", "")
	salt := flag.Int64("salt", 0, "")
	scripted := flag.Bool("scripted", false, "fixed histories: contract-controlled miners, partial refunds")
	p026 := flag.Bool("p026", false, "run with the fork rules of Proposal026 active")
	flag.Parse()
	if *scratch == "" {
		vutil.Fatalf("--scratch required")
	}
	outAbs, _ := filepath.Abs(*out)
	scriptAbs := ""
	if *script != "" {
		scriptAbs, _ = filepath.Abs(*script)
	}
	ledgerops.Rt = ledgerops.BuildRuntime()
	execdrv.Boot(*scratch)
	if *p026 {
		// the fork rules of Proposal026 (fee 0.001, gas x 30) for everything executed from here on
		// (the dev genesis itself can only be created without them)
		common.LocalChainConfig.Proposal026Block = 0
	}
	tr := vutil.NewTrace(outAbs)
	tr.AutoFlush = os.Getenv("C06_FLUSH") != ""
	nh, blocks := 0, 0
	run := func(ops []ledgerops.AbsOp, pickAmount func(o ledgerops.AbsOp) (string, string)) {
		w := ledgerops.NewWorld(nh)
		tr.Emit(map[string]interface{}{"event": "Reset", "slots": w.Slots(), "named": w.Named()})
		for _, o := range ops {
			a, g := pickAmount(o)
			w.Step(tr, o, a, g)
			blocks++
		}
		// pending stake refunds mature at their scheduled heights (beyond 36000, so the reward
		// maturity block comes first)
		// the rewards of all executed blocks mature at the next multiple of 36000
		w.Step(tr, ledgerops.AbsOp{Op: "MatureRewards"}, "", "")
		for len(w.RefundHts) > 0 {
			w.Step(tr, ledgerops.AbsOp{Op: "Mature"}, "", "")
		}
		nh++
	}
	if scriptAbs != "" {
		b, err := os.ReadFile(scriptAbs)
		if err != nil {
			vutil.Fatalf("read script: %v", err)
		}
		var hs [][]ledgerops.AbsOp
		if err := json.Unmarshal(b, &hs); err != nil {
			vutil.Fatalf("parse script: %v", err)
		}
		for _, h := range hs {
			run(h, func(o ledgerops.AbsOp) (string, string) { return ledgerops.Amounts[o.V%3], "" })
		}
	}
	if *scripted {
		// miners whose account is a contract (stake opcodes with every amount class) and partial
		// refunds of ordinary miners, as fixed histories
		for v := 0; v < 7; v++ {
			run([]ledgerops.AbsOp{{Op: "Deploy", A: 2, B: 3, V: 0}, {Op: "ConStake", A: 1, B: 3}, {Op: "ConUnstake", A: 1, B: 3, V: v},
				{Op: "ConAddStake", A: 2, B: 3, V: v}, {Op: "ConUnstake", A: 3, B: 3, V: (v + 3) % 7}, {Op: "ConUnstakeAll", A: 1, B: 3},
				{Op: "ConUnstake", A: 1, B: 3, V: v}},
				func(o ledgerops.AbsOp) (string, string) { return []string{"0", "3"}[v%2], "" })
		}
		for v := 0; v < 6; v++ {
			run([]ledgerops.AbsOp{{Op: "Deploy", A: 2, B: 3, V: 0}, {Op: "AuthCall", A: 1, B: 3, V: v % 3}, {Op: "AuthCall", A: 2, B: 3, V: (v + 1) % 3},
				{Op: "AuthCall", A: 3, B: 3, V: v % 3}, {Op: "AuthCall", A: 1, B: 3, V: 3 + v%3}, {Op: "AuthCall", A: 2, B: 3, V: 3 + (v+1)%3}},
				func(o ledgerops.AbsOp) (string, string) { return []string{"0", "0.25"}[v/3], "" })
		}
		for v := 0; v < 4; v++ {
			run([]ledgerops.AbsOp{{Op: "Deploy", A: 2, B: 3, V: 1}, {Op: "Deploy", A: 3, B: 1, V: 0}, {Op: "ResuicideRevert", A: 1, B: 3, V: v % 2},
				{Op: "Deploy", A: 2, B: 3, V: 2}, {Op: "ResuicideRevert", A: 1, B: 3, V: (v + 1) % 2}},
				func(o ledgerops.AbsOp) (string, string) { return []string{"0.25", "3"}[v/2], "" })
		}
		for v := 0; v < 6; v++ {
			run([]ledgerops.AbsOp{{Op: "PoorFee", A: 1, B: 2, V: v}, {Op: "PoorFee", A: 2, B: 3, V: (v + 3) % 6}},
				func(o ledgerops.AbsOp) (string, string) { return "0", "" })
		}
		for v := 0; v < 9; v++ {
			run([]ledgerops.AbsOp{{Op: "Stake", A: 1, V: v % 3}, {Op: "Stake", A: 2, V: 2}, {Op: "Refund", A: 1, V: v % 3}, {Op: "Refund", A: 2, V: (v / 3) % 3},
				{Op: "Refund", A: 1, V: (v + 1) % 3}, {Op: "Refund", A: 1, V: 0}, {Op: "Refund", A: 2, V: 0}, {Op: "Refund", A: 2, V: 1}},
				func(o ledgerops.AbsOp) (string, string) { return "0", "" })
		}
	}
	rng := vutil.Rng(6 + 1000**salt)
	kinds := []string{"Transfer", "Transfer", "Transfer", "Deploy", "EthForward", "EthStale", "SelfDestruct2", "StaleGas", "CallForward", "CallRevert", "SelfDestruct", "CallCreate", "Stake", "Refund", "Mature", "CallExplicit", "CallExplicit", "SelfDestructFunded", "ConStake", "ConStake", "ConUnstake", "ConUnstake", "ConAddStake", "ConUnstakeAll", "Refund", "AuthCall", "AuthCall", "PoorFee", "PoorFee", "ResuicideRevert"}
	for i := 0; i < *nRandom; i++ {
		ops := make([]ledgerops.AbsOp, 0, *length)
		for j := 0; j < *length; j++ {
			o := ledgerops.AbsOp{Op: kinds[rng.Intn(len(kinds))], A: 1 + rng.Intn(3), B: 1 + rng.Intn(3), V: rng.Intn(3)}
			if o.Op == "Transfer" {
				o.V = rng.Intn(5)
			}
			if o.Op == "CallExplicit" {
				o.V = rng.Intn(54)
			}
			if o.Op == "AuthCall" || o.Op == "PoorFee" {
				o.V = rng.Intn(6)
			}
			if o.Op == "ConUnstake" || o.Op == "ConAddStake" {
				o.V = rng.Intn(7)
			}
			ops = append(ops, o)
		}
		run(ops, func(o ledgerops.AbsOp) (string, string) {
			amt := ledgerops.Amounts[rng.Intn(3)]
			switch r := rng.Intn(10); {
			case r < 3:
				amt = ledgerops.Oddities[rng.Intn(len(ledgerops.Oddities))]
			case r < 4:
				amt = "1000000001" // more than any balance
			case r < 6:
				amt = []string{"=bal", "=bal+", "=max"}[rng.Intn(3)]
			}
			gas := ""
			if rng.Intn(5) == 0 {
				gas = []string{"21000", "21500", "30000", "60000", "1"}[rng.Intn(5)]
			}
			return amt, gas
		})
	}
	tr.Close()
	fmt.Printf("c06: histories=%d blocks=%d events=%d\n", nh, blocks, tr.N)
}
