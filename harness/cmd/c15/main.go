// c15 feeds TLC-generated sequences of verify messages (honest shares in any
// order, re-sent shares, Byzantine and outsider messages) to the real
// consensus/logical round1.Update of a signing round built through hook H3 for
// a group produced by the node's own DKG, and records after every message the
// complete projection of the round for spec/SignRoundTrace.tla.
//
// The driver owns the mapping message class -> real keys, hashes, shares; it
// logs the verdicts of the real VerifySig on what it built and on what the
// round stored. Which of those verdicts a counted share must have is decided
// by the TLA+ side.
package main

import (
	"encoding/json"
	"flag"
	"fmt"
	"math/big"
	"os"
	"path/filepath"
	"sort"

	"github.com/gogo/protobuf/proto"

	"com.tuntun.rangers/node/src/common"
	"com.tuntun.rangers/node/src/consensus/access"
	"com.tuntun.rangers/node/src/consensus/base"
	"com.tuntun.rangers/node/src/consensus/groupsig"
	bn "com.tuntun.rangers/node/src/consensus/groupsig/bn256"
	"com.tuntun.rangers/node/src/consensus/logical"
	"com.tuntun.rangers/node/src/consensus/logical/group_create"
	"com.tuntun.rangers/node/src/consensus/model"
	cnet "com.tuntun.rangers/node/src/consensus/net"
	"com.tuntun.rangers/node/src/core"
	middleware_pb "com.tuntun.rangers/node/src/middleware/pb"
	"com.tuntun.rangers/node/src/middleware/types"
	"verif/harness/internal/cryptoutil"
	"verif/harness/internal/vutil"
)

type tmsg struct {
	Sender int    `json:"sender"`
	Kind   string `json:"kind"`
	Src    int    `json:"src"`
}

const nMem = 4 // must match NMem of SignRoundTrace.cfg

type world struct {
	g        *cryptoutil.Group
	gpk      groupsig.Pubkey
	gid      groupsig.ID
	info     *model.GroupInfo
	outsider *model.SelfMinerInfo
	outSK    groupsig.Seckey
	preBH    *types.BlockHeader
	bh       types.BlockHeader
	h, other common.Hash
	otherRnd []byte
	idx      map[string]int // member id (hex) -> 1-based index; outsider -> nMem+1
	vcache   map[string]bool
	jg       *model.JoinedGroupInfo // the node's key table for the group (member id -> share key)
	attSK    groupsig.Seckey        // the key an attacker announces for other members
	bhA      types.BlockHeader      // an earlier block of the same group (its round ran in this process before)
	g2       *cryptoutil.Group      // a second group with the same members (other share keys)
	gid2     groupsig.ID
}

func (w *world) pkOf(i int) groupsig.Pubkey {
	if i >= 1 && i <= nMem {
		return w.g.SignPK[i-1]
	}
	return *groupsig.GeneratePubkey(w.outSK)
}
func (w *world) skOf(i int) groupsig.Seckey {
	if i >= 1 && i <= nMem {
		return w.g.SignSK[i-1]
	}
	return w.outSK
}
func (w *world) idOf(i int) groupsig.ID {
	if i >= 1 && i <= nMem {
		return w.g.IDs[i-1]
	}
	return w.outsider.ID
}

// valid: verdict of the real VerifySig for (member i's public share, data, signature bytes), cached.
func (w *world) valid(i int, data []byte, sig []byte) bool {
	key := fmt.Sprintf("%d|%x|%x", i, data, sig)
	if v, ok := w.vcache[key]; ok {
		return v
	}
	v := false
	if len(sig) > 0 {
		func() {
			defer func() { recover() }()
			s := groupsig.DeserializeSign(sig)
			v = groupsig.VerifySig(w.pkOf(i), data, *s)
		}()
	}
	w.vcache[key] = v
	return v
}

func newWorld(salt int64, scratch string) *world {
	rng := vutil.Rng(15 + 1000*salt)
	g, err := cryptoutil.RunDKG(rng, nMem, fmt.Sprintf("c15-%d", salt))
	if err != nil {
		vutil.Fatalf("dkg: %v", err)
	}
	w := &world{g: g, gpk: g.GPK[0], vcache: map[string]bool{}, idx: map[string]int{}}
	w.gid = *groupsig.NewIDFromPubkey(w.gpk)
	w.info = model.NewGroupInfo(w.gid, w.gpk, g.Info)
	w.outsider = cryptoutil.NewMiner(rng, 0)
	seed := make([]byte, 32)
	rng.Read(seed)
	w.outSK = *groupsig.NewSeckeyFromRand(base.RandFromBytes(seed))
	for i := 1; i <= nMem; i++ {
		w.idx[g.IDs[i-1].GetHexString()] = i
	}
	w.idx[w.outsider.ID.GetHexString()] = nMem + 1
	// the verifier node is member 1: it joined the group and learnt every member's public share
	jg := model.NewJoindGroupInfo(g.SignSK[0], w.gpk, g.Info.GroupHash())
	for i := 1; i <= nMem; i++ {
		jg.AddMemberSignPK(g.IDs[i-1], g.SignPK[i-1])
	}
	w.jg = jg
	aseed := make([]byte, 32)
	rng.Read(aseed)
	w.attSK = *groupsig.NewSeckeyFromRand(base.RandFromBytes(aseed))
	storage := access.NewJoinedGroupStorage()
	storage.JoinGroup(jg, g.IDs[0])
	group_create.VerifInstallJoinedGroups(storage)
	// previous and proposed header
	prevRandom := make([]byte, 64)
	rng.Read(prevRandom)
	w.otherRnd = make([]byte, 64)
	rng.Read(w.otherRnd)
	w.preBH = &types.BlockHeader{Height: 10, Random: prevRandom, TotalQN: 7}
	w.preBH.Hash = w.preBH.GenHash()
	w.bh = types.BlockHeader{Height: 11, PreHash: w.preBH.Hash, GroupId: w.gid.Serialize(), Castor: []byte{1, 2, 3}, TotalQN: 9,
		CurTime: w.preBH.CurTime.Add(2e9)}
	w.bh.Hash = w.bh.GenHash()
	w.h = w.bh.Hash
	w.other = base.Data2CommonHash([]byte(fmt.Sprintf("another-block-%d", salt)))
	// an earlier block A of the same group
	w.bhA = types.BlockHeader{Height: 9, PreHash: w.preBH.Hash, GroupId: w.gid.Serialize(), Castor: []byte{9, 9}, TotalQN: 8,
		CurTime: w.preBH.CurTime.Add(1e9)}
	w.bhA.Hash = w.bhA.GenHash()
	// a second joined group with the same members: its share keys differ (they depend on the group hash)
	g2, err := cryptoutil.RunDKGOpts(rng, nMem, fmt.Sprintf("c15-second-%d", salt), cryptoutil.Opts{Miners: g.Miners})
	if err != nil {
		vutil.Fatalf("dkg 2: %v", err)
	}
	w.g2 = g2
	w.gid2 = *groupsig.NewIDFromPubkey(g2.GPK[0])
	jg2 := model.NewJoindGroupInfo(g2.SignSK[0], g2.GPK[0], g2.Info.GroupHash())
	for i := 1; i <= nMem; i++ {
		jg2.AddMemberSignPK(g2.IDs[i-1], g2.SignPK[i-1])
	}
	storage.JoinGroup(jg2, g.IDs[0])
	return w
}

// prelude is what this verifier process did before the rounds under test: it looked up every member's
// share key of the OTHER joined group (as a round of that group does), and it ran the round of an
// EARLIER block A of this group in which every member's valid share over hash(A) was verified.
func (w *world) prelude(tr *vutil.Trace) {
	for i := 1; i <= nMem; i++ {
		pk, ok := group_create.GroupCreateProcessor.GetMemberSignPubKey(w.gid2, w.g.IDs[i-1])
		tr.Emit(map[string]interface{}{"event": "Prelude", "what": "lookup in the other group", "member": i,
			"found": ok, "isOtherGroupsKey": ok && pk.IsEqual(w.g2.SignPK[i-1])})
	}
	bh := w.bhA
	r := logical.VerifNewRound1(w.g.IDs[0], w.info, w.preBH, &bh)
	if r == nil {
		vutil.Fatalf("cannot build the round of block A")
	}
	for i := 2; i <= nMem; i++ {
		sk := w.skOf(i)
		cvm := &model.ConsensusVerifyMessage{BlockHash: bh.Hash, RandomSign: groupsig.Sign(sk, w.preBH.Random), Id: fmt.Sprintf("a%d", i),
			SignInfo: model.MakeSignInfo(bh.Hash, groupsig.Sign(sk, bh.Hash.Bytes()), w.idOf(i), common.ConsensusVersion)}
		errText := r.Update(cvm)
		tr.Emit(map[string]interface{}{"event": "Prelude", "what": "round of block A", "member": i, "err": errText,
			"counted": len(r.BlockShares())})
	}
}

var msgSeq int

func g1Of(b []byte) *bn.G1 {
	g := new(bn.G1)
	if _, err := g.Unmarshal(b); err != nil {
		vutil.Fatalf("harness: cannot parse a share: %v", err)
	}
	return g
}

// shifted returns (a + d, b - d).
func shifted(a, b groupsig.Signature, d *bn.G1) (groupsig.Signature, groupsig.Signature) {
	ap := new(bn.G1).Add(g1Of(a.Serialize()), d)
	bp := new(bn.G1).Add(g1Of(b.Serialize()), new(bn.G1).Neg(d))
	return *groupsig.DeserializeSign(ap.Marshal()), *groupsig.DeserializeSign(bp.Marshal())
}

// build constructs the real message of a class. Returns the message and the hash / shares it carries.
func (w *world) build(m tmsg, wire bool) (*model.ConsensusVerifyMessage, common.Hash, []byte, []byte) {
	s := m.Sender
	dataHash := w.h
	sk := w.skOf(s)
	share := groupsig.Sign(sk, w.h.Bytes())
	rnd := groupsig.Sign(sk, w.preBH.Random)
	switch m.Kind {
	case "honest", "nonMember":
	case "otherHash": // a well-formed share of the sender over another hash, filed under this block's hash
		dataHash = w.other
		share = groupsig.Sign(sk, w.other.Bytes())
	case "replay": // another member's shares under the sender's id
		share = groupsig.Sign(w.skOf(m.Src), w.h.Bytes())
		rnd = groupsig.Sign(w.skOf(m.Src), w.preBH.Random)
	case "garbage": // a curve point that is nobody's share
		share = groupsig.Sign(w.outSK, []byte("garbage"))
	case "offcurve": // 64 bytes that are not a curve point
		b := share.Serialize()
		b[63] ^= 0x55
		share = *groupsig.DeserializeSign(b)
	case "badRand": // the beacon share signs something else than the previous beacon value
		rnd = groupsig.Sign(sk, w.otherRnd)
	case "emptyRand":
		rnd = groupsig.Signature{}
	case "selfGarbage": // filed under the receiver's own id: points that are nobody's shares
		share = groupsig.Sign(w.outSK, []byte("self-garbage"))
		rnd = groupsig.Sign(w.outSK, []byte("self-garbage-r"))
	case "selfOther": // filed under the receiver's own id: another member's valid shares
		share = groupsig.Sign(w.skOf(2), w.h.Bytes())
		rnd = groupsig.Sign(w.skOf(2), w.preBH.Random)
	case "selfSender": // filed under the receiver's own id: the faulty sender's own valid shares
		share = groupsig.Sign(w.skOf(nMem), w.h.Bytes())
		rnd = groupsig.Sign(w.skOf(nMem), w.preBH.Random)
	case "underOtherKey": // filed under a member's id, made with the key somebody else announced for it
		share = groupsig.Sign(w.attSK, w.h.Bytes())
		rnd = groupsig.Sign(w.attSK, w.preBH.Random)
	case "staleShare": // the sender's valid share of block A's round, re-sent under this block's hash
		share = groupsig.Sign(sk, w.bhA.Hash.Bytes())
	case "swapped": // the two shares in each other's field: each invalid where it stands, their sum unchanged
		share, rnd = rnd, share
	case "shiftRandom": // block share + D, beacon share - D for a point D nobody can relate to the shares
		d := g1Of(groupsig.Sign(w.outSK, []byte(fmt.Sprintf("D-%d", msgSeq))).Serialize())
		share, rnd = shifted(share, rnd, d)
	case "shiftSmall": // the same with D = the generator of G1
		share, rnd = shifted(share, rnd, new(bn.G1).ScalarBaseMult(big.NewInt(1)))
	default:
		vutil.Fatalf("unknown kind %q", m.Kind)
	}
	msgSeq++
	cvm := &model.ConsensusVerifyMessage{
		BlockHash:  w.h, // every message reaches this round because it names this block
		RandomSign: rnd,
		Id:         fmt.Sprintf("m%d", msgSeq),
		SignInfo:   model.MakeSignInfo(dataHash, share, w.idOf(s), common.ConsensusVersion),
	}
	shareBytes, rndBytes := share.Serialize(), rnd.Serialize()
	if wire {
		v := cvm.SignInfo.GetVersion()
		pb := &middleware_pb.ConsensusVerifyMessage{
			BlockHash:  cvm.BlockHash.Bytes(),
			RandomSign: rndBytes,
			Sign: &middleware_pb.SignData{DataHash: dataHash.Bytes(), DataSign: shareBytes,
				SignMember: w.idOf(s).Serialize(), Version: &v},
		}
		body, err := proto.Marshal(pb)
		if err != nil {
			vutil.Fatalf("marshal: %v", err)
		}
		// production decodes inside ConsensusHandler.Handle, whose recover() discards a message
		// the decoder cannot parse (malformed share bytes): such a message never reaches the round
		var dec *model.ConsensusVerifyMessage
		func() {
			defer func() {
				if p := recover(); p != nil {
					dec = nil
				}
			}()
			d, err := cnet.UnMarshalConsensusVerifyMessage(body)
			if err == nil {
				dec = d
			}
		}()
		if dec == nil {
			return nil, dataHash, shareBytes, rndBytes
		}
		cvm = dec
	}
	return cvm, dataHash, shareBytes, rndBytes
}

// announce delivers a SignPubKeyMessage to the node's real handler: member s's genuine share key, or
// (other) the attacker's key under member s's id. The message is signed with the key it carries.
func (w *world) announce(s int, other bool) {
	sk := w.skOf(s)
	if other {
		sk = w.attSK
	}
	msg := &model.SignPubKeyMessage{GroupHash: w.g.Info.GroupHash(), GroupID: w.gid, SignPK: *groupsig.GeneratePubkey(sk),
		GroupMemberNum: int32(nMem)}
	si, ok := model.NewSignInfo(sk, w.idOf(s), msg)
	if !ok {
		vutil.Fatalf("harness: cannot sign a key announcement")
	}
	msg.SignInfo = si
	group_create.GroupCreateProcessor.OnMessageSignPK(msg)
}

// resetKeys puts the node's key table back: every member's genuine key, without the late member's
// when the sequence is about announcements.
func (w *world) resetKeys(withoutLate bool) {
	for k := range w.jg.MemberSignPubkeyMap {
		delete(w.jg.MemberSignPubkeyMap, k)
	}
	for i := 1; i <= nMem; i++ {
		if withoutLate && i == 2 {
			continue
		}
		w.jg.AddMemberSignPK(w.g.IDs[i-1], w.g.SignPK[i-1])
	}
}

func (w *world) keyTable() []string {
	out := make([]string, nMem+1)
	for i := 1; i <= nMem+1; i++ {
		pk, ok := w.jg.GetMemberSignPK(w.idOf(i))
		switch {
		case !ok:
			out[i-1] = "none"
		case i <= nMem && pk.IsEqual(w.g.SignPK[i-1]):
			out[i-1] = "genuine"
		default:
			out[i-1] = "other"
		}
	}
	return out
}

func (w *world) project(r *logical.VerifRound) map[string]interface{} {
	set := func(m map[string][]byte, data []byte) []map[string]interface{} {
		out := []map[string]interface{}{}
		for idhex, b := range m {
			i, ok := w.idx[idhex]
			if !ok {
				i = nMem + 2 // an id the harness never used
			}
			out = append(out, map[string]interface{}{"m": i, "valid": i <= nMem && w.valid(i, data, b)})
		}
		sort.Slice(out, func(a, b int) bool { return out[a]["m"].(int) < out[b]["m"].(int) })
		return out
	}
	st := map[string]interface{}{
		"keys":       w.keyTable(),
		"gset":       set(r.BlockShares(), w.h.Bytes()),
		"rset":       set(r.BeaconShares(), w.preBH.Random),
		"recovered":  r.BlockSignRecovered(),
		"rrecovered": r.BeaconSignRecovered(),
		"canProceed": r.CanProceed(),
	}
	recSig, recRand, chk := false, false, ""
	if r.BlockSignRecovered() {
		func() {
			defer func() { recover() }()
			recSig = groupsig.VerifySig(w.gpk, w.h.Bytes(), *groupsig.DeserializeSign(r.RecoveredBlockSign()))
		}()
		func() {
			defer func() { recover() }()
			if b := r.RecoveredBeaconSign(); len(b) > 0 {
				recRand = groupsig.VerifySig(w.gpk, w.preBH.Random, *groupsig.DeserializeSign(b))
			}
		}()
		chk = r.CheckSignature()
	}
	st["recSigValid"], st["recRandValid"], st["checkSig"] = recSig, recRand, chk
	return st
}

func main() {
	out := flag.String("out", "trace.ndjson", "trace file")
	script := flag.String("script", "", "JSON file: list of message sequences generated by TLC")
	scratch := flag.String("scratch", "", "scratch directory")
	salt := flag.Int64("salt", 0, "shard number")
	wireEvery := flag.Int("wire-every", 2, "every n-th sequence goes through the protobuf wire codec")
	flag.Parse()
	if *scratch == "" {
		vutil.Fatalf("--scratch required")
	}
	outAbs, _ := filepath.Abs(*out)
	var hists [][]tmsg
	b, err := os.ReadFile(*script)
	if err != nil {
		vutil.Fatalf("read script: %v", err)
	}
	if err := json.Unmarshal(b, &hists); err != nil {
		vutil.Fatalf("parse script: %v", err)
	}
	vutil.BootServices(*scratch)
	core.VerifInitGroupChain(&vutil.StubHelper{})
	logical.InitConsensus()
	access.NewMinerPoolReader() // creates the access package logger
	cnet.InitStateMachines()    // creates the consensus/net package logger
	w := newWorld(*salt, *scratch)
	tr := vutil.NewTrace(outAbs)
	w.prelude(tr)
	nmsg, nwire, nrec := 0, 0, 0
	kinds := map[string]int{}
	for hi, hist := range hists {
		wire := *wireEvery > 0 && hi%*wireEvery == 1
		bh := w.bh // a fresh copy: the round writes the recovered signatures into its header
		r := logical.VerifNewRound1(w.g.IDs[0], w.info, w.preBH, &bh)
		if r == nil {
			vutil.Fatalf("cannot build the round")
		}
		path := "memory"
		if wire {
			path = "wire"
			nwire++
		}
		aboutKeys := false
		for _, m := range hist {
			if m.Kind == "announce" || m.Kind == "announceOther" || m.Kind == "underOtherKey" || m.Kind == "announceOutsider" {
				aboutKeys = true
			}
		}
		w.resetKeys(aboutKeys)
		tr.Emit(map[string]interface{}{"event": "Start", "path": path, "n": w.info.GetMemberCount(), "k": r.Threshold(), "keys": w.keyTable()})
		dead := false
		for _, m := range hist {
			if m.Kind == "announce" || m.Kind == "announceOther" || m.Kind == "announceOutsider" {
				w.announce(m.Sender, m.Kind == "announceOther")
				tr.Emit(map[string]interface{}{"event": "Msg", "m": m, "facts": map[string]interface{}{}, "err": "", "panicked": false, "state": w.project(r)})
				nmsg++
				kinds[m.Kind]++
				continue
			}
			cvm, dataHash, shareBytes, rndBytes := w.build(m, wire)
			facts := map[string]interface{}{
				"isMember":          m.Sender <= nMem,
				"signedIsH":         dataHash == w.h,
				"sigValidForSigned": w.valid(m.Sender, dataHash.Bytes(), shareBytes),
				"sigValidForH":      w.valid(m.Sender, w.h.Bytes(), shareBytes),
				"randValid":         w.valid(m.Sender, w.preBH.Random, rndBytes),
			}
			errText, panicked := "", false
			func() {
				defer func() {
					if p := recover(); p != nil {
						panicked = true
					}
				}()
				if cvm == nil {
					errText = "discarded by the wire decoder"
				} else if dead {
					// an error returned by a round's Update is forwarded to the party's error
					// channel; Processor.waitUntilDone then closes the party and every later
					// message for this block is dropped (loadOrNewSignParty: "already done")
					errText = "party closed after an earlier error"
				} else if r.CanAccept(cvm) == 0 { // as baseParty.Update dispatches
					errText = r.Update(cvm)
					if errText != "" {
						dead = true
					}
				} else {
					errText = "not accepted by round"
				}
			}()
			tr.Emit(map[string]interface{}{"event": "Msg", "m": m, "facts": facts, "err": errText, "panicked": panicked, "state": w.project(r)})
			nmsg++
			kinds[m.Kind]++
		}
		if r.BlockSignRecovered() {
			nrec++
		}
		tr.Emit(map[string]interface{}{"event": "End"})
	}
	tr.Close()
	fmt.Printf("c15: histories=%d wire=%d messages=%d recovered=%d", len(hists), nwire, nmsg, nrec)
	for _, k := range []string{"honest", "otherHash", "replay", "garbage", "offcurve", "badRand", "emptyRand", "swapped", "shiftRandom", "shiftSmall", "staleShare", "selfGarbage", "selfOther", "selfSender", "announce", "announceOther", "announceOutsider", "underOtherKey", "nonMember"} {
		fmt.Printf(" %s=%d", k, kinds[k])
	}
	fmt.Printf(" events=%d\n", tr.N)
}
