// c16 drives the real VRF of the node (vrf.VRFGenProve / VRFVerify /
// VRFProof2Hash, the transport of the proof as the header's big-integer
// ProveValue, verifyBlockVRF, validateProve) and an adversarial prover built
// from hook H5 (proofs whose Gamma is shifted by a small-order point), and
// records one ndjson event per call for spec/VrfTrace.tla.
package main

import (
	"bytes"
	"crypto/sha512"
	"encoding/json"
	"flag"
	"fmt"
	"math/big"
	"math/rand"
	"os"
	"path/filepath"
	"sort"
	"sync"

	"com.tuntun.rangers/node/src/common"
	"com.tuntun.rangers/node/src/common/ed25519"
	ed "com.tuntun.rangers/node/src/common/ed25519/edwards25519"
	"com.tuntun.rangers/node/src/consensus"
	"com.tuntun.rangers/node/src/consensus/groupsig"
	"com.tuntun.rangers/node/src/consensus/logical"
	"com.tuntun.rangers/node/src/consensus/model"
	"com.tuntun.rangers/node/src/consensus/vrf"
	"com.tuntun.rangers/node/src/middleware/types"
	"verif/harness/internal/cryptoutil"
	"verif/harness/internal/vutil"
)

var (
	tr     *vutil.Trace
	counts = map[string]int{}
)

func emit(ev string, kv map[string]interface{}) {
	kv["event"] = ev
	tr.Emit(kv)
	counts[ev]++
}

// ---------------------------------------------------------------- curve helpers (driver side)

func neg(p *ed.ExtendedGroupElement) *ed.ExtendedGroupElement {
	var zero, out ed.ExtendedGroupElement
	var c ed.CachedGroupElement
	var r ed.CompletedGroupElement
	zero.Zero()
	p.ToCached(&c)
	ed.GeSub(&r, &zero, &c)
	r.ToExtended(&out)
	return &out
}

func sub(p, q *ed.ExtendedGroupElement) *ed.ExtendedGroupElement {
	var out ed.ExtendedGroupElement
	var c ed.CachedGroupElement
	var r ed.CompletedGroupElement
	q.ToCached(&c)
	ed.GeSub(&r, p, &c)
	r.ToExtended(&out)
	return &out
}

func add(p, q *ed.ExtendedGroupElement) *ed.ExtendedGroupElement { return sub(p, neg(q)) }

func enc(p *ed.ExtendedGroupElement) [32]byte {
	var b [32]byte
	p.ToBytes(&b)
	return b
}

func isIdentity(p *ed.ExtendedGroupElement) bool {
	b := enc(p)
	id := [32]byte{1}
	return b == id
}

func smallMul(p *ed.ExtendedGroupElement, k int) *ed.ExtendedGroupElement {
	var out ed.ExtendedGroupElement
	out.Zero()
	acc := &out
	for i := 0; i < k; i++ {
		acc = add(acc, p)
	}
	return acc
}

// groupOrderL is the order of the prime-order subgroup, little-endian.
func groupOrderL() *[32]byte {
	l, _ := new(big.Int).SetString("7237005577332262213973186563042994240857116359379907606001950938285454250989", 10)
	be := l.Bytes()
	var le [32]byte
	for i := range be {
		le[i] = be[len(be)-1-i]
	}
	return &le
}

// findT8 finds a point of order exactly 8: L*Q for random curve points Q.
func findT8(rng *rand.Rand) *ed.ExtendedGroupElement {
	for try := 0; try < 1000; try++ {
		var s [32]byte
		rng.Read(s[:])
		s[31] &= 0x7f
		q := new(ed.ExtendedGroupElement)
		if !q.FromBytes(&s) {
			continue
		}
		t := ed.GeScalarMult(q, groupOrderL())
		if !isIdentity(smallMul(t, 8)) {
			vutil.Fatalf("harness: L*Q is not in the 8-torsion")
		}
		if !isIdentity(smallMul(t, 4)) {
			return t
		}
	}
	vutil.Fatalf("harness: no point of order 8 found")
	return nil
}

// ---------------------------------------------------------------- the VRF under test

type keypair struct {
	pk vrf.VRFPublicKey
	sk vrf.VRFPrivateKey
}

func newKey(rng *rand.Rand) keypair {
	pk, sk, err := vrf.VRFGenerateKey(rng)
	if err != nil {
		vutil.Fatalf("keygen: %v", err)
	}
	return keypair{pk, sk}
}

func verify(pk vrf.VRFPublicKey, pi []byte, m []byte) (ok bool) {
	defer func() {
		if r := recover(); r != nil {
			ok = false
		}
	}()
	ok, _ = vrf.VRFVerify(pk, vrf.VRFProve(pi), m)
	return ok
}

// gammaOf computes only Gamma = x*H(m) (used to search messages whose proof starts with zero bytes).
func gammaOf(k keypair, m []byte) [32]byte {
	x, _ := ed25519.VerifExpandSecret(ed25519.PrivateKey(k.sk))
	h := ed25519.VerifHashToCurve(m, ed25519.PublicKey(k.pk))
	hp := new(ed.ExtendedGroupElement)
	hp.FromBytes(&h)
	return enc(ed.GeScalarMult(hp, x))
}

func leadingZeros(b []byte) int {
	z := 0
	for z < len(b) && b[z] == 0 {
		z++
	}
	return z
}

type qual struct {
	Ok bool `json:"ok"`
	Qn int  `json:"qn"`
}

func qualify(pi []byte, height, working, stake uint64) qual {
	ok, qn := logical.VerifValidateProve(vrf.VRFProve(pi), height, working, stake)
	return qual{ok, int(qn)}
}

var classes = &cryptoutil.Classes{}

func proveCase(rng *rand.Rand, k keypair, keyIdx int, m []byte, msgIdx int, wantZ int) []byte {
	emit("VrfCase", map[string]interface{}{"key": keyIdx, "msg": msgIdx, "wantZ": wantZ})
	pi, err := vrf.VRFGenProve(k.pk, k.sk, m)
	if err != nil {
		vutil.Fatalf("prove: %v", err)
	}
	pi2, _ := vrf.VRFGenProve(k.pk, k.sk, m)
	classes = &cryptoutil.Classes{}
	out := vrf.VRFProof2Hash(pi)
	emit("Prove", map[string]interface{}{"key": keyIdx, "msg": msgIdx, "len": len(pi), "deterministic": bytes.Equal(pi, pi2),
		"z": leadingZeros(pi), "outClass": classes.Of(out)})
	// transport as the header's ProveValue: big.Int, header codec, Bytes()
	pv := vrf.VRFProve(pi).Big()
	preBH := &types.BlockHeader{Height: 5, Random: m, TotalQN: 3}
	preBH.CurTime = preBH.CurTime.Add(0)
	stake, working := uint64(1000), uint64(0)
	qd := qualify(pi, preBH.Height+1, working, stake)
	bh := &types.BlockHeader{Height: 6, ProveValue: pv, CurTime: preBH.CurTime.Add(1e9), TotalQN: preBH.TotalQN + uint64(qd.Qn),
		Castor: []byte{1}, GroupId: []byte{2}}
	codecSame := false
	if raw, err := types.MarshalBlockHeader(bh); err == nil {
		if back, err := types.UnMarshalBlockHeader(raw); err == nil && back != nil && back.ProveValue != nil {
			codecSame = back.ProveValue.Cmp(pv) == 0
			bh.ProveValue = back.ProveValue
		}
	}
	transported := bh.ProveValue.Bytes()
	castor := &model.MinerInfo{VrfPK: k.pk, WorkingMiners: working}
	blockOk, _ := logical.VerifVerifyBlockVRF(bh, preBH, castor, stake)
	if !qd.Ok { // an unqualified proof is refused by verifyBlockVRF for that reason; transport is judged on verification alone
		blockOk = verify(k.pk, transported, m)
	}
	emit("Transport", map[string]interface{}{"pi": cryptoutil.Ints(pi), "transported": cryptoutil.Ints(transported),
		"z": leadingZeros(pi), "verifyDirect": verify(k.pk, pi, m), "verifyAfter": verify(k.pk, transported, m),
		"blockVrfOk": blockOk, "qualDirect": qd, "qualAfter": qualify(transported, preBH.Height+1, working, stake),
		"headerCodecSame": codecSame, "helperValueSame": helperValueSame(pv, pi)})
	counts[fmt.Sprintf("z%d", leadingZeros(pi))]++
	return pi
}

// helperValueSame: ConsensusHelperImpl.VRFProve2Value on the header's big integer against the proof's
// own first 32 bytes (the lottery value).
func helperValueSame(pv *big.Int, pi []byte) (same bool) {
	defer func() {
		if r := recover(); r != nil {
			same = false
		}
	}()
	got := consensus.NewConsensusHelper(groupsig.ID{}).VRFProve2Value(pv)
	return got.Cmp(new(big.Int).SetBytes(pi[:32])) == 0
}

func reverse(b []byte) []byte {
	out := make([]byte, len(b))
	for i := range b {
		out[i] = b[len(b)-1-i]
	}
	return out
}

func pad32(b []byte) []byte {
	if len(b) >= 32 {
		return b
	}
	out := make([]byte, 32)
	copy(out[32-len(b):], b)
	return out
}

// blockVRF presents (key, proof, message) to the node's own entry point verifyBlockVRF (round 0,
// Processor.isCastLegal and the fork verifier call it): the proof as the header's ProveValue, the message as
// the previous header's beacon value one time slot earlier. The stake is 1, so that every lottery value
// qualifies, and TotalQN is what validateProve gives for THIS proof: only the VRF verification can refuse.
func blockVRF(pk vrf.VRFPublicKey, pi []byte, m []byte) (accepted bool, qualified bool) {
	preBH := &types.BlockHeader{Height: 5, Random: m, TotalQN: 3}
	q := qualify(pi, preBH.Height+1, 0, 1)
	bh := &types.BlockHeader{Height: 6, ProveValue: vrf.VRFProve(pi).Big(), CurTime: preBH.CurTime.Add(1e9),
		TotalQN: preBH.TotalQN + uint64(q.Qn), Castor: []byte{1}, GroupId: []byte{2}}
	defer func() {
		if r := recover(); r != nil {
			accepted = false
		}
	}()
	accepted, _ = logical.VerifVerifyBlockVRF(bh, preBH, &model.MinerInfo{VrfPK: pk, WorkingMiners: 0}, 1)
	return accepted, q.Ok
}

func mutations(k keypair, m []byte, pi []byte, stride int) {
	flip := func(b []byte, bit int) []byte {
		c := append([]byte(nil), b...)
		c[bit/8] ^= 1 << uint(bit%8)
		return c
	}
	block := func(part string, bit int, pk vrf.VRFPublicKey, proof []byte, msg []byte) {
		acc, q := blockVRF(pk, proof, msg)
		emit("BlockVRF", map[string]interface{}{"part": part, "bit": bit, "accepted": acc, "qualified": q})
	}
	block("none", 0, k.pk, pi, m)
	// forged proofs: a point of the curve that is not Gamma (the hash point itself, the key, Gamma of another
	// message) with the honest proof's c and s, and with other values of c and s
	{
		h := ed25519.VerifHashToCurve(m, ed25519.PublicKey(k.pk))
		other := gammaOf(k, append(append([]byte(nil), m...), 1))
		for gi, g := range [][]byte{h[:], k.pk[:32], other[:]} {
			for v := 0; v < 3; v++ {
				f := append([]byte(nil), pi...)
				copy(f[:32], g)
				if v >= 1 {
					d := cryptoutil.HashOf("c16-forged", 16*gi+v).Bytes()
					copy(f[32:48], d[:16])
					d2 := cryptoutil.HashOf("c16-forged-s", 16*gi+v).Bytes()
					copy(f[48:80], d2)
					f[79] &= 0x0f
				}
				if v == 2 {
					for i := 32; i < 80; i++ {
						f[i] = 0
					}
				}
				emit("Mutate", map[string]interface{}{"part": "forged", "bit": 16*gi + v, "accepted": verify(k.pk, f, m)})
				block("forged", 16*gi+v, k.pk, f, m)
			}
		}
	}
	part := func(bit int) string {
		switch {
		case bit < 256:
			return "gamma"
		case bit < 384:
			return "c"
		}
		return "s"
	}
	for bit := 0; bit < 640; bit += stride {
		emit("Mutate", map[string]interface{}{"part": part(bit), "bit": bit, "accepted": verify(k.pk, flip(pi, bit), m)})
		block(part(bit), bit, k.pk, flip(pi, bit), m)
	}
	// an encoding longer than 80 bytes (proof followed by bytes) as the proof, and single-bit flips of its tail
	for _, extra := range []int{1, 16} {
		long := append(append([]byte(nil), pi...), make([]byte, extra)...)
		long[80] = 0x5a
		emit("Overlong", map[string]interface{}{"extra": extra, "accepted": verify(k.pk, long, m),
			"acceptedThroughHeader": verify(k.pk, vrf.VRFProve(long).Big().Bytes(), m)})
		if verify(k.pk, long, m) {
			for bit := 640; bit < 640+8*extra; bit += 3 {
				emit("Mutate", map[string]interface{}{"part": "trailingByte", "bit": bit, "accepted": verify(k.pk, flip(long, bit), m)})
			}
		}
	}
	// the same gamma and c with s + L (L: order of the prime-order subgroup): another encoding of the proof
	{
		sv := new(big.Int).SetBytes(reverse(pi[48:80]))
		l, _ := new(big.Int).SetString("7237005577332262213973186563042994240857116359379907606001950938285454250989", 10)
		sv.Add(sv, l)
		if sv.BitLen() <= 256 {
			alt := append([]byte(nil), pi...)
			copy(alt[48:80], reverse(pad32(sv.Bytes())))
			emit("AltEncoding", map[string]interface{}{"kind": "sPlusL", "accepted": verify(k.pk, alt, m),
				"sameOutput": bytes.Equal(vrf.VRFProof2Hash(alt), vrf.VRFProof2Hash(pi))})
		}
	}
	for bit := 0; bit < 8*len(m); bit += stride {
		emit("Mutate", map[string]interface{}{"part": "msg", "bit": bit, "accepted": verify(k.pk, pi, flip(m, bit))})
		block("msg", bit, k.pk, pi, flip(m, bit))
	}
	for bit := 0; bit < 256; bit += stride {
		emit("Mutate", map[string]interface{}{"part": "pk", "bit": bit, "accepted": verify(vrf.VRFPublicKey(flip(k.pk, bit)), pi, m)})
		block("pk", bit, vrf.VRFPublicKey(flip(k.pk, bit)), pi, m)
	}
}

// torsion plays the adversarial prover: Gamma' = Gamma + t*T8, commitment V0 = k*H - e*T8.
func torsion(k keypair, m []byte, t8 *ed.ExtendedGroupElement, attempts int) {
	x, trunc := ed25519.VerifExpandSecret(ed25519.PrivateKey(k.sk))
	h := ed25519.VerifHashToCurve(m, ed25519.PublicKey(k.pk))
	hp := new(ed.ExtendedGroupElement)
	hp.FromBytes(&h)
	gamma := ed.GeScalarMult(hp, x)
	nonce0 := ed25519.VerifNonceGeneration(*trunc, h)
	for t := 0; t < 8; t++ {
		gp := add(gamma, smallMul(t8, t))
		for a := 0; a < attempts; a++ {
			e := (a + t) % 8
			// a fresh nonce per attempt
			hh := sha512.Sum512(append(nonce0[:], byte(t), byte(a)))
			var kk [32]byte
			ed.ScReduce(&kk, &hh)
			var u0 ed.ExtendedGroupElement
			ed.GeScalarMultBase(&u0, &kk)
			v0 := sub(ed.GeScalarMult(hp, &kk), smallMul(t8, e))
			c := ed25519.VerifHashPoints(*hp, *gp, u0, *v0)
			var c32, s [32]byte
			copy(c32[:], c[:])
			ed.ScMulAdd(&s, &c32, x, &kk)
			g := enc(gp)
			pi := append(append(append([]byte(nil), g[:]...), c[:]...), s[:]...)
			acc := verify(k.pk, pi, m)
			emit("Torsion", map[string]interface{}{"t": t, "e": e, "cmod8": int(c[0] & 7), "accepted": acc,
				"outClass": classes.Of(vrf.VRFProof2Hash(pi))})
			if acc {
				counts["torsionAccepted"]++
				if t != 0 {
					counts["shiftedAccepted"]++
				}
			}
		}
	}
}

// ---------------------------------------------------------------- qualification cases from TLC

type qcase struct {
	S      []int   `json:"S"`
	W      []int   `json:"W"`
	Active bool    `json:"active"`
	Values [][]int `json:"values"`
}

func leToUint64(d []int) uint64 {
	var v uint64
	for i := len(d) - 1; i >= 0; i-- {
		v = v<<8 | uint64(d[i])
	}
	return v
}

func qualCases(cases []qcase) {
	const p025 = 10
	common.LocalChainConfig.Proposal025Block = p025
	rb := common.GetRewardBlocks()
	if rb > 1<<30 {
		vutil.Fatalf("reward blocks %d out of the trace's integer range", rb)
	}
	safe := func(pi []byte, height, W, S uint64) (q qual, panicked bool) {
		defer func() {
			if r := recover(); r != nil {
				panicked = true
			}
		}()
		return qualify(pi, height, W, S), false
	}
	_ = safe
	ask := func(ci int, again bool) {
		c := cases[ci]
		S, W := leToUint64(c.S), leToUint64(c.W)
		height := uint64(5)
		if c.Active {
			height = p025 + rb + 1
		}
		for vi, v := range c.Values {
			pi := make([]byte, 80)
			for i, b := range v {
				pi[i] = byte(b)
			}
			q1 := qualify(pi, height, W, S)
			q2 := qualify(pi, height, W, S)
			emit("ValidateProve", map[string]interface{}{"kid": fmt.Sprintf("%d-%d", ci, vi), "again": again, "v": v, "S": c.S, "W": c.W,
				"height": int(height), "p025": p025, "rewardBlocks": int(rb), "maxQN": model.Param.MaxQN,
				"ok": q1.Ok, "qn": q1.Qn, "ok2": q2.Ok, "qn2": q2.Qn})
			if again {
				counts["askedAgain"]++
			} else if q1.Ok {
				counts["qualified"]++
			}
			if !again {
				// the same lottery value carried by an encoding that is one byte longer than a proof
				long := append(append([]byte(nil), pi...), 0x5a)
				ql, panicked := safe(long, height, W, S)
				emit("ValidateProve", map[string]interface{}{"kid": fmt.Sprintf("%d-%d-long", ci, vi), "again": false, "extra": 1, "panicked": panicked,
					"v": v, "S": c.S, "W": c.W, "height": int(height), "p025": p025, "rewardBlocks": int(rb), "maxQN": model.Param.MaxQN,
					"ok": ql.Ok, "qn": ql.Qn, "ok2": ql.Ok, "qn2": ql.Qn})
				counts["validateLong"]++
			}
		}
	}
	// first pass: the generator's order, with the two sides of the activation height of equal stake
	// figures next to each other, the side before the activation first
	order := make([]int, len(cases))
	for i := range order {
		order[i] = i
	}
	key := func(i int) string { return fmt.Sprintf("%v|%v", cases[i].S, cases[i].W) }
	sort.SliceStable(order, func(a, b int) bool {
		if key(order[a]) != key(order[b]) {
			return key(order[a]) < key(order[b])
		}
		return !cases[order[a]].Active && cases[order[b]].Active
	})
	for _, ci := range order {
		ask(ci, false)
	}
	// second pass: every question again after other questions, the stake groups in reverse order and
	// within a group the side after the activation first: an answer must not depend on what was asked before
	for k := len(order) - 1; k >= 0; k-- {
		ci := order[k]
		ask(ci, true)
	}
	// more working miners than stake units, after the activation: difficulty = stake / working miners = 0
	pi := make([]byte, 80)
	pi[0] = 0x40
	for _, sw := range [][2]uint64{{3, 5}, {1, 2}, {10, 11}} {
		q, panicked := safe(pi, p025+rb+1, sw[1], sw[0])
		emit("Total", map[string]interface{}{"S": int(sw[0]), "W": int(sw[1]), "active": true, "panicked": panicked, "ok": q.Ok, "qn": q.Qn})
		q, panicked = safe(pi, 5, sw[1], sw[0])
		emit("Total", map[string]interface{}{"S": int(sw[0]), "W": int(sw[1]), "active": false, "panicked": panicked, "ok": q.Ok, "qn": q.Qn})
	}
}

// retention: a proof is a value. It is kept while other proofs are generated (another key, another
// message, in this goroutine and in another one, also through the nonce hook) and only then verified,
// carried through the header's big integer, and compared with what was recorded right after proving.
func retention(rng *rand.Rand, rounds int) {
	for r := 0; r < rounds; r++ {
		for _, kind := range []string{"sameGoroutine", "otherGoroutine", "nonceHook", "manyLater"} {
			k1, k2 := newKey(rng), newKey(rng)
			m1, m2 := make([]byte, 32), make([]byte, 32)
			rng.Read(m1)
			rng.Read(m2)
			p1, err := vrf.VRFGenProve(k1.pk, k1.sk, m1)
			if err != nil {
				vutil.Fatalf("prove: %v", err)
			}
			copy1 := append([]byte(nil), p1...)
			out1 := append([]byte(nil), vrf.VRFProof2Hash(p1)...)
			later := func() {
				if _, err := vrf.VRFGenProve(k2.pk, k2.sk, m2); err != nil {
					vutil.Fatalf("prove: %v", err)
				}
			}
			switch kind {
			case "sameGoroutine":
				later()
			case "otherGoroutine":
				done := make(chan struct{})
				go func() { later(); close(done) }()
				<-done
			case "nonceHook":
				_, trunc := ed25519.VerifExpandSecret(ed25519.PrivateKey(k2.sk))
				ed25519.VerifNonceGeneration(*trunc, ed25519.VerifHashToCurve(m2, ed25519.PublicKey(k2.pk)))
			case "manyLater":
				for i := 0; i < 20; i++ {
					rng.Read(m2)
					later()
				}
			}
			emit("Retain", map[string]interface{}{"kind": kind,
				"verifyKept":        verify(k1.pk, p1, m1),
				"bytesSame":         bytes.Equal(p1, copy1),
				"outputSame":        bytes.Equal(vrf.VRFProof2Hash(p1), out1),
				"transportKept":     verify(k1.pk, vrf.VRFProve(p1).Big().Bytes(), m1),
				"verifiesForLatest": verify(k2.pk, p1, m2)})
		}
	}
}

// concurrent: goroutines prove and verify different (key, message) pairs at the same time; each compares
// every proof with the one it obtained sequentially beforehand.
func concurrent(rng *rand.Rand, workers, iterations int) {
	type job struct {
		k   keypair
		m   []byte
		ref []byte
	}
	jobs := make([]job, workers)
	for i := range jobs {
		jobs[i].k = newKey(rng)
		jobs[i].m = make([]byte, 32)
		rng.Read(jobs[i].m)
		ref, err := vrf.VRFGenProve(jobs[i].k.pk, jobs[i].k.sk, jobs[i].m)
		if err != nil {
			vutil.Fatalf("prove: %v", err)
		}
		jobs[i].ref = append([]byte(nil), ref...)
	}
	mismatches, failures := make([]int, workers), make([]int, workers)
	var wg sync.WaitGroup
	for i := range jobs {
		wg.Add(1)
		go func(i int) {
			defer wg.Done()
			j := jobs[i]
			for it := 0; it < iterations; it++ {
				p, err := vrf.VRFGenProve(j.k.pk, j.k.sk, j.m)
				if err != nil || !bytes.Equal(p, j.ref) {
					mismatches[i]++
				}
				if !verify(j.k.pk, p, j.m) || !verify(j.k.pk, j.ref, j.m) {
					failures[i]++
				}
			}
		}(i)
	}
	wg.Wait()
	mm, ff := 0, 0
	for i := range jobs {
		mm += mismatches[i]
		ff += failures[i]
	}
	emit("Concurrent", map[string]interface{}{"goroutines": workers, "iterations": iterations, "mismatches": mm, "verifyFailures": ff})
}

type vrfMsgPair struct {
	Rel string `json:"rel"`
	Len int    `json:"len"`
	Off int    `json:"off"`
	M1  []int  `json:"m1"`
	M2  []int  `json:"m2"`
}

type vrfMsgCase struct {
	Pair  vrfMsgPair `json:"pair"`
	Order string     `json:"order"`
}

// vrfMsgPairs: two related messages of one key, back to back and in both orders: each proof verifies
// for its own message only, and proving either message again after unrelated ones gives the same proof.
func vrfMsgPairs(rng *rand.Rand, cases []vrfMsgCase) {
	toBytes := func(v []int) []byte {
		b := make([]byte, len(v))
		for i, x := range v {
			b[i] = byte(x)
		}
		return b
	}
	k := newKey(rng)
	prove := func(m []byte) []byte {
		p, err := vrf.VRFGenProve(k.pk, k.sk, m)
		if err != nil {
			vutil.Fatalf("prove: %v", err)
		}
		return append([]byte(nil), p...)
	}
	for _, c := range cases {
		first, second := toBytes(c.Pair.M1), toBytes(c.Pair.M2)
		if c.Order == "rev" {
			first, second = second, first
		}
		p1 := prove(first)
		p2 := prove(second)
		selfFirst, cross12 := verify(k.pk, p1, first), verify(k.pk, p1, second)
		selfSecond, cross21 := verify(k.pk, p2, second), verify(k.pk, p2, first)
		// unrelated messages in between, then both proofs once more
		for i := 0; i < 3; i++ {
			o := make([]byte, 40+30*i)
			rng.Read(o)
			prove(o)
		}
		p2later := prove(second)
		for i := 0; i < 2; i++ {
			o := make([]byte, 70)
			rng.Read(o)
			prove(o)
		}
		p1later := prove(first)
		ms, mo := c.Pair.M1, c.Pair.M2
		if c.Order == "rev" {
			ms, mo = mo, ms
		}
		ev := map[string]interface{}{"rel": c.Pair.Rel, "len": c.Pair.Len, "off": c.Pair.Off, "order": c.Order,
			"selfFirst": selfFirst, "selfSecond": selfSecond, "crossFirstProofSecondMsg": cross12, "crossSecondProofFirstMsg": cross21,
			"proofsEqual": bytes.Equal(p1, p2), "secondProofSameLater": bytes.Equal(p2, p2later), "firstProofSameLater": bytes.Equal(p1, p1later)}
		if len(ms) <= 128 {
			ev["ms"], ev["mo"] = ms, mo
		} else {
			// long messages: the differing window is enough for the monitor to see that they differ
			lo := c.Pair.Off - 2
			if lo < 0 {
				lo = 0
			}
			ev["ms"], ev["mo"] = ms[lo:c.Pair.Off+1], mo[lo:c.Pair.Off+1]
		}
		emit("VrfMsgPair", ev)
	}
}

// boundary: the proposer qualifies its proof with the height of the block it builds on
// (vrfWorker.genProve), the verifiers with the height of the proposed block (verifyBlockVRF). At the
// one base height where the difficulty adjustment becomes active in between, the two may differ.
func boundary(rng *rand.Rand, tries int) {
	const p025 = 10
	common.LocalChainConfig.Proposal025Block = p025
	rb := common.GetRewardBlocks()
	base := p025 + rb // not yet active for the prover; base+1 is active for the verifier
	k := newKey(rng)
	stake, working := uint64(10), uint64(2)
	for t := 0; t < tries; t++ {
		random := make([]byte, 32)
		rng.Read(random)
		preBH := &types.BlockHeader{Height: base, Random: random, TotalQN: 3}
		castTime := preBH.CurTime.Add(1e9)
		msg := logical.VerifGenVrfMsg(random, logical.CalDeltaByTime(castTime, preBH.CurTime))
		pi, err := vrf.VRFGenProve(k.pk, k.sk, msg)
		if err != nil {
			vutil.Fatalf("prove: %v", err)
		}
		pOk, pQn := logical.VerifValidateProve(pi, preBH.Height, working, stake) // as genProve
		if !pOk {
			continue
		}
		bh := &types.BlockHeader{Height: base + 1, ProveValue: pi.Big(), CurTime: castTime, TotalQN: preBH.TotalQN + pQn}
		vOk, why := logical.VerifVerifyBlockVRF(bh, preBH, &model.MinerInfo{VrfPK: k.pk, WorkingMiners: working}, stake)
		// control: one height later both sides are past the activation
		pOk2, pQn2 := logical.VerifValidateProve(pi, preBH.Height+1, working, stake)
		pre2 := &types.BlockHeader{Height: base + 1, Random: random, TotalQN: 3}
		bh2 := &types.BlockHeader{Height: base + 2, ProveValue: pi.Big(), CurTime: castTime, TotalQN: pre2.TotalQN + pQn2}
		vOk2, _ := logical.VerifVerifyBlockVRF(bh2, pre2, &model.MinerInfo{VrfPK: k.pk, WorkingMiners: working}, stake)
		emit("Boundary", map[string]interface{}{"proverQn": int(pQn), "verifierAccepts": vOk, "why": why,
			"controlProverOk": pOk2, "controlVerifierAccepts": vOk2})
	}
}

func main() {
	out := flag.String("out", "trace.ndjson", "trace file")
	script := flag.String("script", "", "JSON file: qualification cases generated by TLC")
	scratch := flag.String("scratch", "", "scratch directory")
	salt := flag.Int64("salt", 0, "shard number")
	nKeys := flag.Int("keys", 2, "key pairs")
	nMsgs := flag.Int("msgs", 3, "messages per key")
	maxZ := flag.Int("maxz", 1, "search messages whose proof starts with up to this many zero bytes")
	stride := flag.Int("stride", 1, "mutate every n-th bit")
	attempts := flag.Int("attempts", 8, "adversarial proving attempts per torsion shift")
	retain := flag.Int("retain", 2, "rounds of the proof-retention family")
	msgScript := flag.String("msgscript", "", "JSON file: related message pairs generated by TLC")
	flag.Parse()
	if *scratch == "" {
		vutil.Fatalf("--scratch required")
	}
	outAbs, _ := filepath.Abs(*out)
	var cases []qcase
	if *script != "" {
		b, err := os.ReadFile(*script)
		if err != nil {
			vutil.Fatalf("read script: %v", err)
		}
		if err := json.Unmarshal(b, &cases); err != nil {
			vutil.Fatalf("parse script: %v", err)
		}
	}
	var mcases []vrfMsgCase
	if *msgScript != "" {
		b, err := os.ReadFile(*msgScript)
		if err != nil {
			vutil.Fatalf("read msgscript: %v", err)
		}
		if err := json.Unmarshal(b, &mcases); err != nil {
			vutil.Fatalf("parse msgscript: %v", err)
		}
	}
	vutil.BootServices(*scratch)
	types.InitSerialzation()
	logical.InitConsensus()
	tr = vutil.NewTrace(outAbs)
	rng := vutil.Rng(16 + 1000**salt)
	t8 := findT8(rng)
	retention(rng, *retain)
	for ki := 1; ki <= *nKeys; ki++ {
		k := newKey(rng)
		for mi := 1; mi <= *nMsgs; mi++ {
			m := make([]byte, 32)
			rng.Read(m)
			pi := proveCase(rng, k, ki, m, mi, 0)
			mutations(k, m, pi, *stride)
			torsion(k, m, t8, *attempts)
		}
		// proofs whose encoding starts with zero bytes: search the message
		for z := 1; z <= *maxZ; z++ {
			m := make([]byte, 32)
			found := false
			for try := 0; try < 1<<22 && !found; try++ {
				rng.Read(m)
				g := gammaOf(k, m)
				found = leadingZeros(g[:]) >= z
			}
			if !found {
				vutil.Fatalf("no message with %d leading zero bytes found", z)
			}
			pi := proveCase(rng, k, ki, m, 100+z, z)
			mutations(k, m, pi, 8**stride)
			torsion(k, m, t8, 2)
		}
	}
	if len(mcases) > 0 {
		vrfMsgPairs(rng, mcases)
	}
	// retained proofs and simultaneous provers, first thing and again after everything else ran
	retention(rng, *retain)
	concurrent(rng, 8, 40)
	if len(cases) > 0 {
		qualCases(cases)
		boundary(rng, 12)
	}
	tr.Close()
	fmt.Printf("c16: blockVrf=%d overlong=%d validateLong=%d total=%d msgpair=%d askedAgain=%d retain=%d concurrent=%d boundary=%d prove=%d transport=%d z0=%d z1=%d z2=%d mutate=%d torsion=%d torsionAccepted=%d shiftedAccepted=%d validate=%d qualified=%d events=%d\n",
		counts["BlockVRF"], counts["Overlong"], counts["validateLong"], counts["Total"], counts["VrfMsgPair"], counts["askedAgain"], counts["Retain"], counts["Concurrent"], counts["Boundary"], counts["Prove"], counts["Transport"], counts["z0"], counts["z1"], counts["z2"], counts["Mutate"], counts["Torsion"],
		counts["torsionAccepted"], counts["shiftedAccepted"], counts["ValidateProve"], counts["qualified"], tr.N)
}
