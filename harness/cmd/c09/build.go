package main

import (
	"math"
	"math/big"
	"math/rand"
	"time"

	"com.tuntun.rangers/node/src/common"
	"com.tuntun.rangers/node/src/middleware/types"
	"verif/harness/internal/vutil"
)

// Instantiation of the abstract field classes of spec/WireCodec.tla with
// concrete values.  "typ" values are seeded; the others are fixed boundary
// values.  The class name only steers generation: the monitor judges the
// logged projection of the value that was really built.

func cU64(c string, rng *rand.Rand) uint64 {
	switch c {
	case "zero":
		return 0
	case "one":
		return 1
	case "max":
		return math.MaxUint64
	case "i64max":
		return math.MaxInt64
	}
	return rng.Uint64()>>uint(rng.Intn(60)) | 2
}

func cI32(c string, rng *rand.Rand) int32 {
	switch c {
	case "zero":
		return 0
	case "neg":
		return -7
	case "max":
		return math.MaxInt32
	case "min":
		return math.MinInt32
	}
	return int32(1 + rng.Intn(1000))
}

func cStr(c string, rng *rand.Rand) string {
	switch c {
	case "empty":
		return ""
	case "long":
		b := make([]byte, 300)
		for i := range b {
			b[i] = byte('a' + i%26)
		}
		return string(b)
	case "json":
		return `{"k":"v","n":[1,2,3]}`
	case "unicode":
		return "héllo 世界"
	case "hex":
		return "0x38780174572fb5b4735df1b7c69aee77ff6e9f49"
	}
	const al = "abcdefghijklmnopqrstuvwxyz0123456789"
	b := make([]byte, 1+rng.Intn(12))
	for i := range b {
		b[i] = al[rng.Intn(len(al))]
	}
	return string(b)
}

func cHash(c string, rng *rand.Rand) common.Hash {
	var h common.Hash
	switch c {
	case "zero":
	case "ff":
		for i := range h {
			h[i] = 0xff
		}
	case "lead0":
		rng.Read(h[:])
		h[0], h[1] = 0, 0
	default:
		rng.Read(h[:])
	}
	return h
}

func cBytes(c string, rng *rand.Rand) []byte {
	switch c {
	case "nil":
		return nil
	case "empty":
		return []byte{}
	case "lead0":
		b := make([]byte, 32)
		rng.Read(b)
		b[0] = 0
		return b
	case "long":
		b := make([]byte, 200)
		rng.Read(b)
		return b
	}
	b := make([]byte, 1+rng.Intn(40))
	rng.Read(b)
	return b
}

func cTime(c string, rng *rand.Rand) time.Time {
	base := time.Date(2024, 5, 17, 13, 45, 59, 0, time.UTC).Add(time.Duration(rng.Intn(1000000)) * time.Second)
	switch c {
	case "zero":
		return time.Time{}
	case "utc":
		return base
	case "nsec":
		return base.Add(123456789 * time.Nanosecond)
	case "east":
		return base.In(time.FixedZone("CST", 8*3600))
	case "west":
		return base.In(time.FixedZone("", -(9*3600 + 30*60))).Add(999999999 * time.Nanosecond)
	case "zero-off-named":
		return base.In(time.FixedZone("GMT", 0))
	case "west-secoff":
		// a zone west of Greenwich whose offset is not a whole number of minutes (local mean times)
		return base.In(time.FixedZone("LMT", -(4*3600 + 56*60 + 2)))
	case "secoff":
		return base.In(time.FixedZone("LMT", 5*3600+53*60+28))
	case "mono":
		return time.Now()
	case "local":
		return base.In(time.Local)
	case "early":
		return time.Date(1, 1, 1, 0, 0, 1, 0, time.UTC)
	case "far":
		return time.Date(9999, 12, 31, 23, 59, 59, 999999999, time.UTC)
	}
	return base.Add(time.Duration(rng.Intn(1000000000)))
}

func cBig(c string, rng *rand.Rand) *big.Int {
	switch c {
	case "nil":
		return nil
	case "zero":
		return new(big.Int)
	case "neg":
		return big.NewInt(-12345)
	case "lead0":
		// a prove value whose fixed-width byte form starts with zero bytes
		b := make([]byte, 32)
		rng.Read(b)
		b[0], b[1] = 0, 0
		return new(big.Int).SetBytes(b)
	case "big":
		b := make([]byte, 81)
		rng.Read(b)
		b[0] |= 0x80
		return new(big.Int).SetBytes(b)
	}
	b := make([]byte, 32)
	rng.Read(b)
	b[0] |= 1
	return new(big.Int).SetBytes(b)
}

func cSign(c string, rng *rand.Rand) *common.Sign {
	b := make([]byte, 65)
	switch c {
	case "nil":
		return nil
	case "zero":
	case "max":
		for i := range b {
			b[i] = 0xff
		}
	case "lead0":
		rng.Read(b)
		b[0], b[32] = 0, 0
		b[64] = 1
	default:
		rng.Read(b)
		b[64] = byte(rng.Intn(2))
	}
	return common.BytesToSign(b)
}

func cMap(c string, rng *rand.Rand) map[string]uint64 {
	switch c {
	case "nil":
		return nil
	case "empty":
		return map[string]uint64{}
	case "one":
		return map[string]uint64{"fixed": 7}
	case "max":
		return map[string]uint64{"fixed": math.MaxUint64, "": 0}
	}
	m := map[string]uint64{}
	for i := 0; i < 2+rng.Intn(4); i++ {
		m[cStr("typ", rng)] = rng.Uint64()
	}
	return m
}

func cHashes(c string, rng *rand.Rand) []common.Hash {
	switch c {
	case "nil":
		return nil
	case "empty":
		return make([]common.Hash, 0)
	case "one":
		return []common.Hash{cHash("typ", rng)}
	}
	l := make([]common.Hash, 2+rng.Intn(3))
	for i := range l {
		l[i] = cHash("typ", rng)
	}
	l[0] = common.Hash{}
	return l
}

func cHashes2(c string, rng *rand.Rand) []common.Hashes {
	switch c {
	case "nil":
		return nil
	case "empty":
		return make([]common.Hashes, 0)
	case "one":
		return []common.Hashes{{cHash("typ", rng), cHash("zero", rng)}}
	}
	l := make([]common.Hashes, 2+rng.Intn(3))
	for i := range l {
		l[i] = common.Hashes{cHash("typ", rng), cHash("typ", rng)}
	}
	return l
}

func cBList(c string, rng *rand.Rand) [][]byte {
	switch c {
	case "nil":
		return nil
	case "empty":
		return [][]byte{}
	case "one":
		return [][]byte{cBytes("typ", rng)}
	case "withempty":
		return [][]byte{cBytes("typ", rng), {}, cBytes("typ", rng)}
	}
	return [][]byte{cBytes("typ", rng), cBytes("typ", rng), cBytes("typ", rng)}
}

func cSubTx(c string, rng *rand.Rand) []types.UserData {
	switch c {
	case "nil":
		return nil
	case "empty":
		return []types.UserData{}
	case "one":
		return []types.UserData{{Address: 5, TransferData: types.TransferData{Balance: "1.5"}}}
	case "emptymaps":
		return []types.UserData{{Address: 1, TransferData: types.TransferData{Coin: map[string]string{}, FT: map[string]string{}}, Assets: map[string]string{}}}
	}
	return []types.UserData{
		{Address: math.MaxUint64, TransferData: types.TransferData{Balance: "0.000000000000000001", Coin: map[string]string{"c": "1"}, FT: map[string]string{"f-1": "2", "a": "3"}}, Assets: map[string]string{"k": "v"}},
		{Address: 0},
	}
}

func cLocal(c string, rng *rand.Rand) string {
	if c == "set" {
		return "sock-" + cStr("typ", rng)
	}
	return ""
}

type classes map[string]string

func (c classes) get(f string) string {
	if v, ok := c[f]; ok {
		return v
	}
	return "typ"
}

func buildTx(c classes, rng *rand.Rand) *types.Transaction {
	return &types.Transaction{
		Data: cStr(c.get("Data"), rng), Nonce: cU64(c.get("Nonce"), rng), Source: cStr(c.get("Source"), rng), Target: cStr(c.get("Target"), rng),
		Type: cI32(c.get("Type"), rng), Hash: cHash(c.get("Hash"), rng), ExtraData: cStr(c.get("ExtraData"), rng),
		ExtraDataType: cI32(c.get("ExtraDataType"), rng), Sign: cSign(c.get("Sign"), rng), Time: cStr(c.get("Time"), rng),
		RequestId: cU64(c.get("RequestId"), rng), SocketRequestId: cLocal(c["SocketRequestId"], rng),
		SubTransactions: cSubTx(c.get("SubTransactions"), rng), SubHash: cHash(c.get("SubHash"), rng), ChainId: cStr(c.get("ChainId"), rng),
	}
}

func buildHeader(c classes, rng *rand.Rand) *types.BlockHeader {
	return &types.BlockHeader{
		Hash: cHash(c.get("Hash"), rng), Height: cU64(c.get("Height"), rng), PreHash: cHash(c.get("PreHash"), rng), PreTime: cTime(c.get("PreTime"), rng),
		ProveValue: cBig(c.get("ProveValue"), rng), TotalQN: cU64(c.get("TotalQN"), rng), CurTime: cTime(c.get("CurTime"), rng),
		Castor: cBytes(c.get("Castor"), rng), GroupId: cBytes(c.get("GroupId"), rng), Signature: cBytes(c.get("Signature"), rng),
		Nonce: cU64(c.get("Nonce"), rng), RequestIds: cMap(c.get("RequestIds"), rng), Transactions: cHashes2(c.get("Transactions"), rng),
		TxTree: cHash(c.get("TxTree"), rng), ReceiptTree: cHash(c.get("ReceiptTree"), rng), StateTree: cHash(c.get("StateTree"), rng),
		ExtraData: cBytes(c.get("ExtraData"), rng), Random: cBytes(c.get("Random"), rng), EvictedTxs: cHashes(c.get("EvictedTxs"), rng),
	}
}

func buildGroup(c classes, rng *rand.Rand) *types.Group {
	d := func(f string) uint64 {
		if c[f] == "set" {
			return 1 + uint64(rng.Intn(1000))
		}
		return 0
	}
	return &types.Group{
		Header: &types.GroupHeader{
			Hash: cHash(c.get("H.Hash"), rng), Parent: cBytes(c.get("H.Parent"), rng), PreGroup: cBytes(c.get("H.PreGroup"), rng),
			CreateBlockHash: cBytes(c.get("H.CreateBlockHash"), rng), BeginTime: cTime(c.get("H.BeginTime"), rng),
			MemberRoot: cHash(c.get("H.MemberRoot"), rng), CreateHeight: cU64(c.get("H.CreateHeight"), rng),
			ReadyHeight: d("H.ReadyHeight"), WorkHeight: d("H.WorkHeight"), DismissHeight: d("H.DismissHeight"), Extends: cStr(c.get("H.Extends"), rng),
		},
		Id: cBytes(c.get("Id"), rng), PubKey: cBytes(c.get("PubKey"), rng), Signature: cBytes(c.get("Signature"), rng),
		Members: cBList(c.get("Members"), rng), GroupHeight: cU64(c.get("GroupHeight"), rng),
	}
}

var _ = vutil.Seed
