// c09 runs the real wire codecs (src/middleware/types/serialization.go) on
// TLC-generated cases (spec/WireCodecGen.tla: field-class combinations and
// field-presence patterns) and on seeded random values, random byte strings
// and bit-flipped encodings, and logs `Call(in) = out` events for
// spec/WireCodecTrace.tla.  The driver computes no expected value.
//
// Events
//
//	RoundTrip  kind, x (projection of the value), h0 (its identifying hash),
//	           pass1 {res, where}, x1, h1, pass2 {res, where}, x2, h2:
//	           two serialise/parse passes through the real Marshal*/UnMarshal*.
//	Parse      kind, present/hpresent/txs (fields written), tv (content of the
//	           time fields), in (hex), res (object|error|neither|panic), where;
//	           when an object came out: x, h0 and one further pass (pass1, x1, h1).
//
// res classes: "object" (a usable value: non-nil, blocks and groups with a
// header), "error", "neither" (no error and no usable value), "panic"
// (where = the function of the node that panicked), and for the serialising
// half "marshal-error" / "marshal-panic".
package main

import (
	"encoding/hex"
	"encoding/json"
	"flag"
	"fmt"
	"math/rand"
	"os"
	"math/big"
	"path/filepath"
	"reflect"
	"runtime"
	"strings"
	"time"

	"com.tuntun.rangers/node/src/common"
	middleware_pb "com.tuntun.rangers/node/src/middleware/pb"
	"com.tuntun.rangers/node/src/middleware/types"
	"github.com/gogo/protobuf/proto"
	"verif/harness/internal/codecutil"
	"verif/harness/internal/vutil"
)

type tcase struct {
	Op       string            `json:"op"` // rt | presence
	Kind     string            `json:"kind"`
	Cls      map[string]string `json:"cls"`
	Present  []int             `json:"present"`
	HPresent []int             `json:"hpresent"`
	Txs      [][]int           `json:"txs"`
	Tv       string            `json:"tv"`
	Cv       string            `json:"cv"`
	Inter    string            `json:"inter"`
	Steps    []struct {
		O string `json:"o"`
		F string `json:"f"`
	} `json:"steps"`
}

// tryWhere runs f; on a panic it reports the innermost function of the node
// on the panicking stack and the panic text.
func tryWhere(f func()) (panicked bool, where, msg string) {
	defer func() {
		if r := recover(); r != nil {
			panicked = true
			msg = fmt.Sprint(r)
			if len(msg) > 120 {
				msg = msg[:120]
			}
			pcs := make([]uintptr, 64)
			n := runtime.Callers(2, pcs)
			frames := runtime.CallersFrames(pcs[:n])
			where = "?"
			for {
				fr, more := frames.Next()
				if strings.Contains(fr.Function, "com.tuntun.rangers/node/src/") {
					where = fr.Function[strings.LastIndex(fr.Function, "/")+1:]
					break
				}
				if !more {
					break
				}
			}
		}
	}()
	f()
	return
}

type codec struct {
	marshal func(v interface{}) ([]byte, error)
	parse   func(b []byte) (v interface{}, usable bool, err error)
	project func(v interface{}) proj
	hash    func(v interface{}) string
}

var codecs = map[string]codec{
	"tx": {
		marshal: func(v interface{}) ([]byte, error) { return types.MarshalTransaction(v.(*types.Transaction)) },
		parse: func(b []byte) (interface{}, bool, error) {
			t, err := types.UnMarshalTransaction(b)
			return &t, true, err
		},
		project: func(v interface{}) proj { return projTx(v.(*types.Transaction)) },
		hash:    func(v interface{}) string { return pHash(v.(*types.Transaction).GenHash()) },
	},
	"txs": {
		marshal: func(v interface{}) ([]byte, error) { return types.MarshalTransactions(v.([]*types.Transaction)) },
		parse: func(b []byte) (interface{}, bool, error) {
			l, err := types.UnMarshalTransactions(b)
			return l, l != nil, err
		},
		project: func(v interface{}) proj {
			l := v.([]*types.Transaction)
			out := make([]interface{}, 0, len(l))
			for _, t := range l {
				out = append(out, projTx(t))
			}
			return proj{"l": out}
		},
		hash: func(v interface{}) string {
			s := ""
			for _, t := range v.([]*types.Transaction) {
				s += pHash(t.GenHash())
			}
			return s
		},
	},
	"header": {
		marshal: func(v interface{}) ([]byte, error) { return types.MarshalBlockHeader(v.(*types.BlockHeader)) },
		parse: func(b []byte) (interface{}, bool, error) {
			h, err := types.UnMarshalBlockHeader(b)
			return h, h != nil, err
		},
		project: func(v interface{}) proj { return projHeader(v.(*types.BlockHeader)) },
		hash:    func(v interface{}) string { return pHash(v.(*types.BlockHeader).GenHash()) },
	},
	"block": {
		marshal: func(v interface{}) ([]byte, error) { return types.MarshalBlock(v.(*types.Block)) },
		parse: func(b []byte) (interface{}, bool, error) {
			bl, err := types.UnMarshalBlock(b)
			return bl, bl != nil && bl.Header != nil, err
		},
		project: func(v interface{}) proj { return projBlock(v.(*types.Block)) },
		hash:    func(v interface{}) string { return pHash(v.(*types.Block).Header.GenHash()) },
	},
	"group": {
		marshal: func(v interface{}) ([]byte, error) { return types.MarshalGroup(v.(*types.Group)) },
		parse: func(b []byte) (interface{}, bool, error) {
			g, err := types.UnMarshalGroup(b)
			return g, g != nil && g.Header != nil, err
		},
		project: func(v interface{}) proj { return projGroup(v.(*types.Group)) },
		hash:    func(v interface{}) string { return pHash(v.(*types.Group).Header.GenHash()) },
	},
}

var errNilResult = fmt.Errorf("nil result")

func init() {
	// the exported converters behind the parsers: core/sync_msg.go and consensus/net call them on
	// messages they unmarshalled themselves.  They have no error result: the contract observed is
	// "a complete object or nil" (nil counts as the refusal); a non-nil object without its header
	// is neither.
	codecs["pbblock"] = codec{
		marshal: codecs["block"].marshal,
		parse: func(b []byte) (interface{}, bool, error) {
			pb := new(middleware_pb.Block)
			if err := proto.Unmarshal(b, pb); err != nil {
				return nil, false, err
			}
			blk := types.PbToBlock(pb)
			if blk == nil {
				return nil, false, errNilResult
			}
			return blk, blk.Header != nil, nil
		},
		project: codecs["block"].project,
		hash:    codecs["block"].hash,
	}
	codecs["pbgroup"] = codec{
		marshal: codecs["group"].marshal,
		parse: func(b []byte) (interface{}, bool, error) {
			pb := new(middleware_pb.Group)
			if err := proto.Unmarshal(b, pb); err != nil {
				return nil, false, err
			}
			g := types.PbToGroup(pb)
			if g == nil {
				return nil, false, errNilResult
			}
			return g, g.Header != nil, nil
		},
		project: codecs["group"].project,
		hash:    codecs["group"].hash,
	}
	codecs["member"] = codec{
		marshal: func(v interface{}) ([]byte, error) { return types.MarshalMember(v.(*types.Member)) },
		parse: func(b []byte) (interface{}, bool, error) {
			m, err := types.UnMarshalMember(b)
			return m, m != nil, err
		},
		project: func(v interface{}) proj { return projMember(v.(*types.Member)) },
		hash: func(v interface{}) string {
			m := v.(*types.Member)
			return pHash(common.BytesToHash(common.Sha256(append(append([]byte{}, m.Id...), m.PubKey...))))
		},
	}
}

var kinds = []string{"tx", "txs", "header", "block", "group", "member", "pbblock", "pbgroup"}

type outcome struct {
	res, where, msg string
	v               interface{}
}

func (o outcome) form() map[string]interface{} {
	return map[string]interface{}{"res": o.res, "where": o.where}
}

func doParse(kind string, b []byte) outcome {
	c := codecs[kind]
	var v interface{}
	var usable bool
	var err error
	p, where, msg := tryWhere(func() { v, usable, err = c.parse(b) })
	switch {
	case p:
		return outcome{res: "panic", where: where, msg: msg}
	case err != nil:
		return outcome{res: "error"}
	case !usable:
		return outcome{res: "neither"}
	}
	return outcome{res: "object", v: v}
}

// pass = serialise + parse
func doPass(kind string, v interface{}) outcome { return doPassRetained(kind, v, "none", nil) }

// doPassRetained: serialise v and keep the bytes; let another value of the same kind be serialised
// (on this goroutine, or on another one that is waited for); only then parse the kept bytes.
func doPassRetained(kind string, v interface{}, inter string, other interface{}) outcome {
	c := codecs[kind]
	var b []byte
	var err error
	p, where, msg := tryWhere(func() {
		b, err = c.marshal(v)
		switch inter {
		case "same-goroutine":
			c.marshal(other)
		case "other-goroutine":
			done := make(chan struct{})
			go func() {
				defer close(done)
				defer func() { recover() }()
				c.marshal(other)
			}()
			<-done
			// the other goroutine may have run on another P: once more here as well after it
			// (different pooled buffers per P), which is what a node under load does anyway
		}
	})
	if p {
		return outcome{res: "marshal-panic", where: where, msg: msg}
	}
	if err != nil {
		return outcome{res: "marshal-error"}
	}
	return doParse(kind, b)
}

var tr *vutil.Trace
var counts = map[string]int{}

func emit(ev map[string]interface{}) {
	counts[ev["event"].(string)+"."+ev["kind"].(string)]++
	tr.Emit(ev)
}

func safeProject(kind string, v interface{}) (proj, string) {
	var pr proj
	var h string
	if p, _, _ := tryWhere(func() { pr = codecs[kind].project(v); h = codecs[kind].hash(v) }); p {
		return proj{}, "unprojectable"
	}
	return pr, h
}

func roundTrip(kind string, v interface{}, src string, cls map[string]string) {
	roundTripRetained(kind, v, src, cls, "none", nil)
}

func roundTripRetained(kind string, v interface{}, src string, cls map[string]string, inter string, other interface{}) {
	ev := map[string]interface{}{"event": "RoundTrip", "kind": kind, "src": src, "cls": cls, "inter": inter}
	ev["x"], ev["h0"] = safeProject(kind, v)
	o1 := doPassRetained(kind, v, inter, other)
	ev["pass1"] = o1.form()
	ev["x1"], ev["h1"] = proj{}, ""
	ev["pass2"] = outcome{res: "skipped"}.form()
	ev["x2"], ev["h2"] = proj{}, ""
	if o1.res == "object" {
		ev["x1"], ev["h1"] = safeProject(kind, o1.v)
		o2 := doPassRetained(kind, o1.v, inter, other)
		ev["pass2"] = o2.form()
		if o2.res == "object" {
			ev["x2"], ev["h2"] = safeProject(kind, o2.v)
		}
	}
	emit(ev)
}

func parseEvent(kind string, in []byte, src string, c *tcase) {
	ev := map[string]interface{}{"event": "Parse", "kind": kind, "src": src, "in": hex.EncodeToString(in),
		"present": []int{}, "hpresent": []int{}, "txs": [][]int{}, "tv": "valid", "cv": "typical"}
	if c != nil {
		if c.Present != nil {
			ev["present"] = c.Present
		}
		if c.HPresent != nil {
			ev["hpresent"] = c.HPresent
		}
		if c.Txs != nil {
			ev["txs"] = c.Txs
		}
		if c.Tv != "" {
			ev["tv"] = c.Tv
		}
		if c.Cv != "" {
			ev["cv"] = c.Cv
		}
	}
	o := doParse(kind, in)
	ev["res"], ev["where"] = o.res, o.where
	ev["x"], ev["h0"] = proj{}, ""
	ev["pass1"] = outcome{res: "skipped"}.form()
	ev["x1"], ev["h1"] = proj{}, ""
	if o.res == "object" {
		// a value obtained by parsing must survive a further pass unchanged
		ev["x"], ev["h0"] = safeProject(kind, o.v)
		o1 := doPass(kind, o.v)
		ev["pass1"] = o1.form()
		if o1.res == "object" {
			ev["x1"], ev["h1"] = safeProject(kind, o1.v)
		}
	}
	emit(ev)
}

// card reads a cardinality key ("#txs" |-> "200"); -1 when absent or not a number.
func card(cls classes, key string) int {
	s, ok := cls[key]
	if !ok {
		return -1
	}
	n := 0
	for _, ch := range s {
		if ch < '0' || ch > '9' {
			return -1
		}
		n = n*10 + int(ch-'0')
	}
	return n
}

func manyTxs(n int, rng *rand.Rand) []*types.Transaction {
	l := make([]*types.Transaction, n)
	for i := range l {
		l[i] = buildTx(classes{}, rng)
	}
	return l
}

type hasher interface{ GenHash() common.Hash }

// freshCopy builds a new object with the same exported field values (unexported state is not
// copied): "a freshly built object with the same fields".
func freshCopy(obj interface{}) interface{} {
	v := reflect.ValueOf(obj).Elem()
	n := reflect.New(v.Type())
	for i := 0; i < v.NumField(); i++ {
		if v.Type().Field(i).PkgPath == "" {
			n.Elem().Field(i).Set(v.Field(i))
		}
	}
	return n.Interface()
}

// mutateField gives field name of the object a new value of its type.
func mutateField(obj interface{}, name string, rng *rand.Rand) {
	f := reflect.ValueOf(obj).Elem().FieldByName(name)
	if !f.IsValid() {
		vutil.Fatalf("no field %q", name)
	}
	var nv interface{}
	switch f.Interface().(type) {
	case common.Hash:
		nv = cHash("typ", rng)
	case uint64:
		nv = rng.Uint64()>>1 | 1
	case int32:
		nv = int32(1 + rng.Intn(1<<30))
	case string:
		nv = cStr("typ", rng) + cStr("typ", rng)
	case []byte:
		nv = cBytes("typ", rng)
	case time.Time:
		nv = cTime("typ", rng)
	case *big.Int:
		nv = cBig("typ", rng)
	case map[string]uint64:
		nv = cMap("typ", rng)
	case []common.Hashes:
		nv = cHashes2("typ", rng)
	case []common.Hash:
		nv = cHashes("typ", rng)
	case *common.Sign:
		nv = cSign("typ", rng)
	case []types.UserData:
		nv = cSubTx("typ", rng)
		if rng.Intn(2) == 0 {
			nv = cSubTx("one", rng)
		}
	default:
		vutil.Fatalf("mutateField: unsupported type of %s", name)
	}
	f.Set(reflect.ValueOf(nv))
}

// lifeEvent: the life of ONE object (header, transaction, group header): GenHash calls (H), field
// changes (M), value copies (C), Hash := GenHash() (S), serialise + parse (W).  After every H/S the
// digest of the live object is logged next to the digest of a freshly built object with the same
// field values.
func lifeEvent(c *tcase, rng *rand.Rand) {
	var obj interface{}
	switch c.Kind {
	case "header":
		obj = buildHeader(classes{}, rng)
	case "tx":
		obj = buildTx(classes{}, rng)
	case "gheader":
		obj = buildGroup(classes{}, rng).Header
	default:
		vutil.Fatalf("hashseq: unknown kind %q", c.Kind)
	}
	steps := make([]interface{}, 0, len(c.Steps))
	setHash := ""
	p, where, _ := tryWhere(func() {
		for _, st := range c.Steps {
			rec := map[string]interface{}{"o": st.O, "f": st.F, "h": "", "hf": "", "res": "", "stored": ""}
			switch st.O {
			case "H":
				rec["h"] = pHash(obj.(hasher).GenHash())
				rec["hf"] = pHash(freshCopy(obj).(hasher).GenHash())
			case "M":
				mutateField(obj, st.F, rng)
			case "C":
				v := reflect.ValueOf(obj).Elem()
				n := reflect.New(v.Type())
				n.Elem().Set(v) // a value copy, as `bh2 := *bh` does
				obj = n.Interface()
			case "S":
				h := obj.(hasher).GenHash()
				reflect.ValueOf(obj).Elem().FieldByName("Hash").Set(reflect.ValueOf(h))
				setHash = pHash(h)
				rec["h"] = setHash
				rec["hf"] = pHash(freshCopy(obj).(hasher).GenHash())
			case "W":
				var o outcome
				switch c.Kind {
				case "header":
					o = doPass("header", obj)
				case "tx":
					o = doPass("tx", obj)
				default:
					g := buildGroup(classes{}, rng)
					g.Header = obj.(*types.GroupHeader)
					o = doPass("group", g)
					if o.res == "object" {
						o.v = o.v.(*types.Group).Header
					}
				}
				rec["res"] = o.res
				if o.res == "object" {
					obj = o.v
					rec["stored"] = pHash(reflect.ValueOf(obj).Elem().FieldByName("Hash").Interface().(common.Hash))
					rec["h"] = pHash(obj.(hasher).GenHash())
					rec["hf"] = pHash(freshCopy(obj).(hasher).GenHash())
				}
			default:
				vutil.Fatalf("hashseq: unknown step %q", st.O)
			}
			steps = append(steps, rec)
		}
	})
	emit(map[string]interface{}{"event": "Life", "kind": c.Kind, "src": "tlc", "steps": steps, "set": setHash, "panic": p, "where": where})
}

// concurrent: K goroutines serialise and parse DIFFERENT values of one kind at the same time, each
// keeping its bytes across the others' calls.  Every goroutine compares what it gets with what the
// same calls gave sequentially beforehand; only differing results are emitted - as RoundTrip events
// (inter = "concurrent"), judged by the monitor like any other.
func concurrent(kind string, vals []interface{}, rounds, iters int) (ran, emitted int) {
	c := codecs[kind]
	k := len(vals)
	type ref struct {
		x    proj
		h0   string
		enc  []byte
		key1 string
	}
	refs := make([]ref, k)
	key := func(o outcome) string {
		if o.res != "object" {
			return o.res
		}
		x1, h1 := safeProject(kind, o.v)
		b, _ := json.Marshal([]interface{}{x1, h1})
		return string(b)
	}
	for i, v := range vals {
		r := ref{}
		r.x, r.h0 = safeProject(kind, v)
		o := doPass(kind, v)
		if o.res != "object" {
			return
		}
		r.enc, _ = c.marshal(v)
		r.key1 = key(o)
		refs[i] = r
	}
	type res struct {
		ev map[string]interface{}
		n  int
	}
	for r := 0; r < rounds; r++ {
		ch := make(chan res, k)
		start := make(chan struct{})
		for i := range vals {
			go func(i int) {
				var bad map[string]interface{}
				n := 0
				<-start
				for it := 0; it < iters && bad == nil; it++ {
					n++
					o := doPass(kind, vals[i])
					if key(o) != refs[i].key1 {
						bad = map[string]interface{}{"event": "RoundTrip", "kind": kind, "src": "conc", "cls": map[string]string{}, "inter": "concurrent",
							"x": refs[i].x, "h0": refs[i].h0, "pass1": o.form(), "x1": proj{}, "h1": "",
							"pass2": outcome{res: "skipped"}.form(), "x2": proj{}, "h2": ""}
						if o.res == "object" {
							bad["x1"], bad["h1"] = safeProject(kind, o.v)
						}
					}
				}
				ch <- res{bad, n}
			}(i)
		}
		close(start)
		for j := 0; j < k; j++ {
			x := <-ch
			ran += x.n
			if x.ev != nil && emitted < 500 {
				emit(x.ev)
				emitted++
			}
		}
	}
	return
}

func buildKind(kind string, cls classes, rng *rand.Rand) interface{} {
	kind = strings.TrimPrefix(kind, "pb")
	switch kind {
	case "member":
		return &types.Member{Id: cBytes(cls.get("Id"), rng), PubKey: cBytes(cls.get("PubKey"), rng)}
	case "tx":
		t := buildTx(cls, rng)
		if n := card(cls, "#SubTransactions"); n >= 0 {
			t.SubTransactions = make([]types.UserData, n)
			for i := range t.SubTransactions {
				t.SubTransactions[i] = types.UserData{Address: uint64(i), TransferData: types.TransferData{Balance: "1"}}
			}
		}
		return t
	case "txs":
		if n := card(cls, "#list"); n >= 0 {
			return manyTxs(n, rng)
		}
		return []*types.Transaction{buildTx(cls, rng), buildTx(classes{}, rng)}
	case "header":
		h := buildHeader(cls, rng)
		if n := card(cls, "#Transactions"); n >= 0 {
			h.Transactions = make([]common.Hashes, n)
			for i := range h.Transactions {
				h.Transactions[i] = common.Hashes{cHash("typ", rng), cHash("typ", rng)}
			}
		}
		if n := card(cls, "#EvictedTxs"); n >= 0 {
			h.EvictedTxs = make([]common.Hash, n)
			for i := range h.EvictedTxs {
				h.EvictedTxs[i] = cHash("typ", rng)
			}
		}
		if n := card(cls, "#RequestIds"); n >= 0 {
			h.RequestIds = map[string]uint64{}
			for i := 0; i < n; i++ {
				h.RequestIds[fmt.Sprintf("k%03d", i)] = rng.Uint64()
			}
		}
		return h
	case "block":
		// cls keys "T.<field>" steer the first transaction, the others the header
		tc := classes{}
		hc := classes{}
		for k, v := range cls {
			if strings.HasPrefix(k, "T.") {
				tc[k[2:]] = v
			} else {
				hc[k] = v
			}
		}
		b := &types.Block{Header: buildHeader(hc, rng)}
		if n := card(cls, "#txs"); n >= 0 {
			// a block as the proposer builds it: n bodies and their n hash pairs in the header
			b.Transactions = manyTxs(n, rng)
			b.Header.Transactions = make([]common.Hashes, n)
			for i, t := range b.Transactions {
				b.Header.Transactions[i] = common.Hashes{t.Hash, t.SubHash}
			}
			return b
		}
		switch cls["#txs"] {
		case "nil":
		case "empty":
			b.Transactions = []*types.Transaction{}
		default:
			b.Transactions = []*types.Transaction{buildTx(tc, rng), buildTx(classes{}, rng)}
		}
		return b
	case "group":
		g := buildGroup(cls, rng)
		if n := card(cls, "#Members"); n >= 0 {
			g.Members = make([][]byte, n)
			for i := range g.Members {
				g.Members[i] = cBytes("typ", rng)
			}
		}
		return g
	}
	vutil.Fatalf("unknown kind %q", kind)
	return nil
}

func encPresence(c *tcase, rng *rand.Rand) []byte {
	tv := c.Tv
	if tv == "" {
		tv = "valid"
	}
	oddContent = strings.HasPrefix(c.Cv, "odd")
	oddField = strings.TrimPrefix(strings.TrimPrefix(c.Cv, "odd"), ":")
	defer func() { oddContent, oddField = false, "" }()
	switch c.Kind {
	case "tx":
		return encTx(c.Present, rng)
	case "txs":
		var b []byte
		for _, t := range c.Txs {
			b = putB(b, 1, encTx(t, rng))
		}
		return b
	case "header":
		return encHeader(c.Present, tv, rng)
	case "block":
		return encBlock(c.HPresent, c.Txs, has(c.Present, 1), tv, rng)
	case "group":
		return encGroup(c.Present, c.HPresent, tv, rng)
	}
	vutil.Fatalf("unknown kind %q", c.Kind)
	return nil
}

var classPool = map[string][]string{
	"u64": {"zero", "one", "typ", "max", "i64max"}, "i32": {"zero", "typ", "neg", "max", "min"},
	"str": {"empty", "typ", "long", "json", "unicode", "hex"}, "hash": {"zero", "typ", "ff", "lead0"},
	"bytes": {"nil", "empty", "typ", "lead0", "long"},
	"time":  {"zero", "utc", "nsec", "east", "west", "zero-off-named", "secoff", "mono", "local", "early", "far", "typ"},
	"big":   {"nil", "zero", "typ", "lead0", "big"}, "sign": {"nil", "zero", "typ", "max", "lead0"},
	"map": {"nil", "empty", "one", "max", "typ"}, "hashes": {"empty", "one", "typ"}, "blist": {"nil", "one", "withempty", "typ"},
	"subtx": {"nil", "empty", "one", "emptymaps", "typ"},
}

var fieldKinds = map[string]map[string]string{
	"tx": {"Data": "str", "Nonce": "u64", "Source": "str", "Target": "str", "Type": "i32", "Hash": "hash", "ExtraData": "str",
		"ExtraDataType": "i32", "Sign": "sign", "Time": "str", "RequestId": "u64", "SubTransactions": "subtx", "SubHash": "hash", "ChainId": "str"},
	"header": {"Hash": "hash", "Height": "u64", "PreHash": "hash", "PreTime": "time", "ProveValue": "big", "TotalQN": "u64", "CurTime": "time",
		"Castor": "bytes", "GroupId": "bytes", "Signature": "bytes", "Nonce": "u64", "RequestIds": "map", "Transactions": "hashes",
		"TxTree": "hash", "ReceiptTree": "hash", "StateTree": "hash", "ExtraData": "bytes", "Random": "bytes", "EvictedTxs": "hashes"},
	"group": {"H.Hash": "hash", "H.Parent": "bytes", "H.PreGroup": "bytes", "H.CreateBlockHash": "bytes", "H.BeginTime": "time",
		"H.MemberRoot": "hash", "H.CreateHeight": "u64", "H.Extends": "str", "Id": "bytes", "PubKey": "bytes", "Signature": "bytes",
		"Members": "blist", "GroupHeight": "u64"},
}

// randClasses draws a class for every field from the classes a node can
// produce or parse (so the strong law applies to the value).
func randClasses(kind string, rng *rand.Rand) classes {
	kind = strings.TrimPrefix(kind, "pb")
	k := kind
	if kind == "txs" {
		k = "tx"
	}
	c := classes{}
	if kind == "block" {
		for f, fk := range fieldKinds["header"] {
			c[f] = classPool[fk][rng.Intn(len(classPool[fk]))]
		}
		for f, fk := range fieldKinds["tx"] {
			c["T."+f] = classPool[fk][rng.Intn(len(classPool[fk]))]
		}
		c["#txs"] = []string{"nil", "empty", "two", "two"}[rng.Intn(4)]
		return c
	}
	for f, fk := range fieldKinds[k] {
		c[f] = classPool[fk][rng.Intn(len(classPool[fk]))]
	}
	return c
}

func main() {
	out := flag.String("out", "trace.ndjson", "trace file")
	casesPath := flag.String("cases", "", "JSON file: list of TLC-generated cases")
	nRandom := flag.Int("random", 0, "number of seeded random values / byte strings per kind")
	salt := flag.Int64("salt", 0, "extra seed salt (shard number)")
	scratch := flag.String("scratch", "", "scratch directory (cwd of the run: the node's logger writes there)")
	concRounds := flag.Int("conc", 0, "concurrency family: rounds per kind (8 goroutines, 40 passes each)")
	flag.Parse()
	outAbs, _ := filepath.Abs(*out)
	casesAbs := *casesPath
	if casesAbs != "" {
		casesAbs, _ = filepath.Abs(casesAbs)
	}
	if *scratch == "" {
		vutil.Fatalf("--scratch required")
	}
	if err := os.MkdirAll(*scratch, 0755); err != nil {
		vutil.Fatalf("mkdir: %v", err)
	}
	if err := os.Chdir(*scratch); err != nil {
		vutil.Fatalf("chdir: %v", err)
	}
	types.InitSerialzation() // as middleware.InitMiddleware does: the parsers log through it
	var cases []tcase
	codecutil.ReadCases(casesAbs, &cases)
	tr = vutil.NewTrace(outAbs)
	rng := vutil.Rng(9 + 1000**salt)
	for i := range cases {
		c := &cases[i]
		switch c.Op {
		case "rt":
			roundTrip(c.Kind, buildKind(c.Kind, classes(c.Cls), rng), "tlc", c.Cls)
		case "hashseq":
			lifeEvent(c, rng)
		case "retain":
			a := buildKind(c.Kind, classes(c.Cls), rng)
			roundTripRetained(c.Kind, a, "retain", c.Cls, c.Inter, buildKind(c.Kind, randClasses(c.Kind, rng), rng))
		case "presence":
			b := encPresence(c, rng)
			parseEvent(c.Kind, b, "presence", c)
			// the same message through the exported converter
			if c.Kind == "block" || c.Kind == "group" {
				parseEvent("pb"+c.Kind, b, "presence", c)
			}
		default:
			vutil.Fatalf("unknown case op %q", c.Op)
		}
	}
	for i := 0; i < *nRandom; i++ {
		for _, kind := range kinds {
			// a random producible value
			cls := randClasses(kind, rng)
			v := buildKind(kind, cls, rng)
			roundTrip(kind, v, "random", cls)
			// and with another value serialised while the bytes are kept
			roundTripRetained(kind, v, "random-retain", cls, []string{"same-goroutine", "other-goroutine"}[rng.Intn(2)],
				buildKind(kind, randClasses(kind, rng), rng))
			// random bytes, and a valid encoding with one bit flipped / truncated
			rb := make([]byte, rng.Intn(40))
			rng.Read(rb)
			if len(rb) > 1 && rng.Intn(2) == 0 {
				// bias towards plausible protobuf: tag bytes of small field numbers
				for j := 0; j < len(rb); j += 2 {
					rb[j] = byte((1+rng.Intn(20))<<3 | []int{0, 2}[rng.Intn(2)])
				}
			}
			parseEvent(kind, rb, "random", nil)
			var enc []byte
			if p, _, _ := tryWhere(func() { enc, _ = codecs[kind].marshal(v) }); !p && len(enc) > 0 {
				m := append([]byte{}, enc...)
				switch rng.Intn(3) {
				case 0:
					m[rng.Intn(len(m))] ^= 1 << uint(rng.Intn(8))
				case 1:
					m = m[:rng.Intn(len(m))]
				default:
					j := rng.Intn(len(m))
					m = append(m[:j], m[j+1:]...)
				}
				parseEvent(kind, m, "mutated", nil)
			}
		}
	}
	concRan := 0
	if *concRounds > 0 {
		for _, kind := range kinds {
			vals := make([]interface{}, 8)
			for i := range vals {
				cls := randClasses(kind, rng)
				if kind == "block" {
					cls["#txs"] = []string{"0", "1", "2", "5", "20", "60", "two", "empty"}[i]
				}
				vals[i] = buildKind(kind, cls, rng)
			}
			for _, procs := range []int{runtime.NumCPU(), 1} {
				old := runtime.GOMAXPROCS(procs)
				r, _ := concurrent(kind, vals, *concRounds, 40)
				runtime.GOMAXPROCS(old)
				concRan += r
			}
		}
	}
	tr.Close()
	fmt.Printf("c09: conc_passes=%d events=%d", concRan, tr.N)
	for _, k := range kinds {
		fmt.Printf(" rt.%s=%d parse.%s=%d", k, counts["RoundTrip."+k], k, counts["Parse."+k])
	}
	fmt.Println()
}
