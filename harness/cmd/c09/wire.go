package main

import (
	"math/rand"
	"strings"
	"time"
)

// A minimal protobuf wire encoder (varint and length-delimited fields), used
// to produce messages with any chosen subset of fields present - independent
// of the proto library the node uses.

type wfield struct {
	num  int
	kind byte // 'v' varint, 'b' bytes/string, 't' time.MarshalBinary bytes, 'm' nested message(s)
	name string
}

var txFields = []wfield{
	{1, 'b', "Data"}, {2, 'v', "Nonce"}, {3, 'b', "Source"}, {4, 'b', "Target"}, {5, 'v', "Type"}, {6, 'b', "Hash"},
	{7, 'b', "ExtraData"}, {8, 'v', "ExtraDataType"}, {9, 'b', "Sign"}, {10, 'b', "Time"}, {11, 'v', "RequestId"},
	{12, 'b', "SocketRequestId"}, {13, 'b', "SubTransactions"}, {14, 'b', "SubHash"}, {15, 'b', "ChainId"},
}

var headerFields = []wfield{
	{1, 'b', "Hash"}, {2, 'v', "Height"}, {3, 'b', "PreHash"}, {4, 't', "PreTime"}, {5, 'b', "ProveValue"}, {6, 'v', "TotalQN"},
	{7, 't', "CurTime"}, {8, 'b', "Castor"}, {9, 'b', "GroupId"}, {10, 'b', "Signature"}, {11, 'v', "Nonce"}, {12, 'm', "transactions"},
	{13, 'b', "TxTree"}, {14, 'b', "ReceiptTree"}, {15, 'b', "StateTree"}, {16, 'b', "ExtraData"}, {17, 'b', "Random"},
	{18, 'b', "ProveRoot"}, {19, 'm', "EvictedTxs"}, {20, 'b', "RequestIds"},
}

var gheaderFields = []wfield{
	{1, 'b', "Hash"}, {2, 'b', "Parent"}, {3, 'b', "PreGroup"}, {4, 'b', "CreateBlockHash"}, {5, 't', "BeginTime"},
	{6, 'b', "MemberRoot"}, {7, 'v', "CreateHeight"}, {8, 'b', "Extends"},
}

var groupFields = []wfield{
	{1, 'm', "Header"}, {2, 'b', "Id"}, {3, 'b', "PubKey"}, {4, 'b', "Signature"}, {5, 'b', "Members"}, {6, 'v', "GroupHeight"},
}

func putVarint(b []byte, x uint64) []byte {
	for x >= 0x80 {
		b = append(b, byte(x)|0x80)
		x >>= 7
	}
	return append(b, byte(x))
}

func putV(b []byte, num int, x uint64) []byte {
	b = putVarint(b, uint64(num)<<3|0)
	return putVarint(b, x)
}

func putB(b []byte, num int, v []byte) []byte {
	b = putVarint(b, uint64(num)<<3|2)
	b = putVarint(b, uint64(len(v)))
	return append(b, v...)
}

func has(present []int, n int) bool {
	for _, x := range present {
		if x == n {
			return true
		}
	}
	return false
}

// timeBytes: the bytes put into a time field: "valid", "empty", "garbage".
func timeBytes(variant string, rng *rand.Rand) []byte {
	switch variant {
	case "empty":
		return []byte{}
	case "garbage":
		return []byte{9, 1, 2}
	}
	b, _ := time.Date(2024, 3, 4, 5, 6, 7, 89, time.FixedZone("", 3600)).Add(time.Duration(rng.Intn(100000)) * time.Second).MarshalBinary()
	return b
}

// oddContent: the fields that are written hold ill-sized / ill-formed content;
// oddField restricts that to one field ("" = all; "SignEmpty" = an empty Sign).
var oddContent bool
var oddField string

func isOdd(name string) bool {
	return oddContent && (oddField == "" || oddField == name || (oddField == "SignEmpty" && name == "Sign"))
}

func encFields(fields []wfield, present []int, tvariant string, rng *rand.Rand, nested func(num int) [][]byte) []byte {
	var b []byte
	for _, f := range fields {
		if !has(present, f.num) {
			continue
		}
		switch f.kind {
		case 'v':
			b = putV(b, f.num, uint64(1+rng.Intn(100000)))
		case 'b':
			v := make([]byte, 32)
			rng.Read(v)
			if f.name == "SubTransactions" {
				v = []byte(`[{"address":3,"balance":"1","Assets":null}]`)
			}
			if f.name == "RequestIds" {
				v = []byte(`{"fixed":9}`)
			}
			if f.name == "Sign" {
				v = make([]byte, 65)
				rng.Read(v)
			}
			if f.name == "Data" || f.name == "Target" || f.name == "Time" || f.name == "ChainId" || f.name == "SocketRequestId" || f.name == "Extends" {
				v = []byte("s" + f.name)
			}
			if isOdd(f.name) {
				switch {
				case f.name == "Sign" && oddField == "SignEmpty":
					v = []byte{}
				case f.name == "Sign":
					v = []byte{0xde, 0xad, 0xbe, 0xef}
				case f.name == "SubTransactions" || f.name == "RequestIds":
					v = []byte(`{not json`)
				case f.name == "ProveValue":
					v = []byte{}
				case strings.HasSuffix(f.name, "Hash") || strings.HasSuffix(f.name, "Tree") || f.name == "MemberRoot":
					if rng.Intn(2) == 0 {
						v = v[:5]
					} else {
						v = append(v, v[:8]...)
					}
				}
			}
			b = putB(b, f.num, v)
		case 't':
			b = putB(b, f.num, timeBytes(tvariant, rng))
		case 'm':
			for _, m := range nested(f.num) {
				b = putB(b, f.num, m)
			}
		}
	}
	return b
}

func encTx(present []int, rng *rand.Rand) []byte {
	return encFields(txFields, present, "valid", rng, nil)
}

func encHeader(present []int, tvariant string, rng *rand.Rand) []byte {
	return encFields(headerFields, present, tvariant, rng, func(num int) [][]byte {
		h := make([]byte, 32)
		rng.Read(h)
		if num == 12 { // repeated TransactionHash{hash=1, subHash=2}; one full, one with only hash
			return [][]byte{putB(putB(nil, 1, h), 2, h), putB(nil, 1, h)}
		}
		return [][]byte{putB(putB(nil, 1, h), 1, h)} // Hashes{repeated bytes hashes = 1}
	})
}

func allNums(fields []wfield) []int {
	out := make([]int, 0, len(fields))
	for _, f := range fields {
		out = append(out, f.num)
	}
	return out
}

func encGroup(present, hpresent []int, tvariant string, rng *rand.Rand) []byte {
	return encFields(groupFields, present, tvariant, rng, func(num int) [][]byte {
		return [][]byte{encFields(gheaderFields, hpresent, tvariant, rng, nil)}
	})
}

func encBlock(hpresent []int, txs [][]int, headerPresent bool, tvariant string, rng *rand.Rand) []byte {
	var b []byte
	if headerPresent {
		b = putB(b, 1, encHeader(hpresent, tvariant, rng))
	}
	for _, t := range txs {
		b = putB(b, 2, encTx(t, rng))
	}
	return b
}
