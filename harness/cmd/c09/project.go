package main

import (
	"encoding/hex"
	"encoding/json"
	"math/big"
	"sort"
	"strconv"
	"time"

	"com.tuntun.rangers/node/src/common"
	"com.tuntun.rangers/node/src/middleware/types"
)

// Projections of the in-memory values, as logged for spec/WireCodecTrace.tla.
// Field forms:
//
//	u64     decimal string                   i32   JSON number
//	str     JSON string                      hash  hex string (64 digits)
//	bytes   {"nil":bool,"h":hex}             big   {"nil":bool,"neg":bool,"h":hex magnitude}
//	time    {"sec":decimal string (unix seconds),"nsec":n,"off":zone offset seconds,"mono":bool}
//	sign    {"nil":bool,"h":hex of the 65 bytes r|s|v}
//	map     {"nil":bool,"kv":[[key,decimal value],...]} sorted by key
//	hashes  {"nil":bool,"l":[hex,...]}       hashes2 {"nil":bool,"l":[[hex,hex],...]}
//	blist   {"nil":bool,"l":[bytes,...]}     json  {"nil":bool,"text":json.Marshal of the field}
type proj = map[string]interface{}

func u64(x uint64) string { return strconv.FormatUint(x, 10) }

func pBytes(b []byte) proj { return proj{"nil": b == nil, "h": hex.EncodeToString(b)} }

func pHash(h common.Hash) string { return hex.EncodeToString(h[:]) }

func pBig(i *big.Int) proj {
	if i == nil {
		return proj{"nil": true, "neg": false, "h": ""}
	}
	return proj{"nil": false, "neg": i.Sign() < 0, "h": hex.EncodeToString(i.Bytes())}
}

func pTime(t time.Time) proj {
	_, off := t.Zone()
	// the monotonic reading shows in the String() form only
	s := t.String()
	mono := len(s) > 3 && containsMono(s)
	return proj{"sec": strconv.FormatInt(t.Unix(), 10), "nsec": t.Nanosecond(), "off": off, "mono": mono}
}

func containsMono(s string) bool {
	for i := 0; i+2 < len(s); i++ {
		if s[i] == ' ' && s[i+1] == 'm' && s[i+2] == '=' {
			return true
		}
	}
	return false
}

func pSign(s *common.Sign) proj {
	if s == nil {
		return proj{"nil": true, "h": ""}
	}
	return proj{"nil": false, "h": hex.EncodeToString(s.Bytes())}
}

func pMap(m map[string]uint64) proj {
	kv := make([]interface{}, 0, len(m))
	keys := make([]string, 0, len(m))
	for k := range m {
		keys = append(keys, k)
	}
	sort.Strings(keys)
	for _, k := range keys {
		kv = append(kv, []string{k, u64(m[k])})
	}
	return proj{"nil": m == nil, "kv": kv}
}

func pHashes(l []common.Hash) proj {
	out := make([]string, 0, len(l))
	for _, h := range l {
		out = append(out, pHash(h))
	}
	return proj{"nil": l == nil, "l": out}
}

func pHashes2(l []common.Hashes) proj {
	out := make([]interface{}, 0, len(l))
	for _, h := range l {
		out = append(out, []string{pHash(h[0]), pHash(h[1])})
	}
	return proj{"nil": l == nil, "l": out}
}

func pBList(l [][]byte) proj {
	out := make([]interface{}, 0, len(l))
	for _, b := range l {
		out = append(out, pBytes(b))
	}
	return proj{"nil": l == nil, "l": out}
}

func pJSON(v interface{}, isNil bool) proj {
	b, err := json.Marshal(v)
	if err != nil {
		return proj{"nil": isNil, "text": "error:" + err.Error()}
	}
	return proj{"nil": isNil, "text": string(b)}
}

func projTx(t *types.Transaction) proj {
	return proj{
		"Data": t.Data, "Nonce": u64(t.Nonce), "Source": t.Source, "Target": t.Target, "Type": int(t.Type),
		"Hash": pHash(t.Hash), "ExtraData": t.ExtraData, "ExtraDataType": int(t.ExtraDataType), "Sign": pSign(t.Sign),
		"Time": t.Time, "RequestId": u64(t.RequestId), "SocketRequestId": t.SocketRequestId,
		"SubTransactions": pJSON(t.SubTransactions, t.SubTransactions == nil), "SubHash": pHash(t.SubHash), "ChainId": t.ChainId,
	}
}

func projHeader(h *types.BlockHeader) proj {
	return proj{
		"Hash": pHash(h.Hash), "Height": u64(h.Height), "PreHash": pHash(h.PreHash), "PreTime": pTime(h.PreTime),
		"ProveValue": pBig(h.ProveValue), "TotalQN": u64(h.TotalQN), "CurTime": pTime(h.CurTime), "Castor": pBytes(h.Castor),
		"GroupId": pBytes(h.GroupId), "Signature": pBytes(h.Signature), "Nonce": u64(h.Nonce), "RequestIds": pMap(h.RequestIds),
		"Transactions": pHashes2(h.Transactions), "TxTree": pHash(h.TxTree), "ReceiptTree": pHash(h.ReceiptTree),
		"StateTree": pHash(h.StateTree), "ExtraData": pBytes(h.ExtraData), "Random": pBytes(h.Random), "EvictedTxs": pHashes(h.EvictedTxs),
	}
}

func projGroup(g *types.Group) proj {
	gh := g.Header
	return proj{
		"Id": pBytes(g.Id), "PubKey": pBytes(g.PubKey), "Signature": pBytes(g.Signature), "Members": pBList(g.Members),
		"GroupHeight": u64(g.GroupHeight),
		"Header": proj{
			"Hash": pHash(gh.Hash), "Parent": pBytes(gh.Parent), "PreGroup": pBytes(gh.PreGroup), "CreateBlockHash": pBytes(gh.CreateBlockHash),
			"BeginTime": pTime(gh.BeginTime), "MemberRoot": pHash(gh.MemberRoot), "CreateHeight": u64(gh.CreateHeight),
			"ReadyHeight": u64(gh.ReadyHeight), "WorkHeight": u64(gh.WorkHeight), "DismissHeight": u64(gh.DismissHeight), "Extends": gh.Extends,
		},
	}
}

func projBlock(b *types.Block) proj {
	txs := make([]interface{}, 0, len(b.Transactions))
	for _, t := range b.Transactions {
		txs = append(txs, projTx(t))
	}
	return proj{"Header": projHeader(b.Header), "Transactions": proj{"nil": b.Transactions == nil, "l": txs}}
}

func projMember(m *types.Member) proj {
	return proj{"Id": pBytes(m.Id), "PubKey": pBytes(m.PubKey)}
}
