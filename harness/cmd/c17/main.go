// c17 drives the real transaction pool (service.TxPool over its real LevelDB
// executed store) with call histories and records every call with the pool's
// complete projection as ndjson events for spec/TxPoolTrace.tla.
//
// Sequential histories come from TLC (spec/TxPoolMC.tla, HIST lines) and from a
// seeded random walker; `--big` adds histories with more pending transactions
// than the per-block limit.
package main

import (
	"encoding/json"
	"flag"
	"fmt"
	"os"
	"path/filepath"
	"runtime"
	"strconv"
	"strings"

	"com.tuntun.rangers/node/src/common"
	"com.tuntun.rangers/node/src/middleware/db"
	"com.tuntun.rangers/node/src/middleware/types"
	"com.tuntun.rangers/node/src/service"
	"com.tuntun.rangers/node/src/storage/account"
	"verif/harness/internal/vutil"
)

type txRec struct {
	Sender int `json:"sender"`
	Nonce  int `json:"nonce"`
	Rid    int `json:"rid"`
}

type op struct {
	Op string `json:"op"` // Add | PackMark | Pack | MarkOne | UnMarkLast
	T  int    `json:"t"`
}

// the universe of spec/TxPoolMC.tla
var mcUniverse = []txRec{{1, 0, 0}, {1, 1, 0}, {1, 1, 0}, {2, 1, 0}, {9, 0, 7}, {9, 0, 8}}

var (
	pool    service.TransactionPool
	histNo  int
	txs     []*types.Transaction // index = id-1
	idOf    map[common.Hash]int
	stateDB *account.AccountDB
)

func senderAddr(s int) string {
	return fmt.Sprintf("0x%040x", 0xabc000+s)
}

func newHistory(universe []txRec, nonces map[int]int) {
	histNo++
	// empty the pool: everything still pending is evicted
	// (by the hashes of the previous history, not by what the pool lists: the listing is one of
	// the things under test)
	ev := make([]common.Hash, 0, len(txs))
	for _, t := range txs {
		ev = append(ev, t.Hash)
	}
	for _, t := range pool.GetReceived() {
		ev = append(ev, t.Hash)
	}
	if len(ev) > 0 {
		pool.MarkExecuted(&types.BlockHeader{}, nil, nil, ev)
	}
	if pool.TxNum() != 0 {
		vutil.Fatalf("pool not empty after eviction: %d", pool.TxNum())
	}
	txs = txs[:0]
	idOf = map[common.Hash]int{}
	for i, r := range universe {
		t := &types.Transaction{
			Type:      types.TransactionTypeOperatorEvent,
			Source:    senderAddr(r.Sender),
			Nonce:     uint64(r.Nonce),
			RequestId: uint64(r.Rid),
			Data:      fmt.Sprintf("h%d-t%d;", histNo, i+1), // the delimiter keeps Data+Nonce unambiguous in GenHash
			ChainId:   "9500",
		}
		t.Hash = t.GenHash()
		txs = append(txs, t)
		idOf[t.Hash] = i + 1
	}
	mem, _ := db.NewMemDatabase()
	st, err := account.NewAccountDB(common.Hash{}, account.NewDatabase(mem))
	if err != nil {
		vutil.Fatalf("new account db: %v", err)
	}
	for s, n := range nonces {
		st.SetNonce(common.HexToAddress(senderAddr(s)), uint64(n))
	}
	stateDB = st
}

// skipLookups: the projection does not call IsExisted (a scheduled lock-free lookup must be the
// first one to ask for that transaction)
var skipLookups bool

// pre018: the history runs under the rules below the Proposal018 height (PackForCast does not
// order by nonce there; the per-block limit and the other pack clauses hold all the same)
var pre018 bool

func project() map[string]interface{} {
	st := map[string]interface{}{}
	st["lookupSkipped"] = skipLookups
	pend := make([]int, 0)
	for _, t := range pool.GetReceived() {
		id, ok := idOf[t.Hash]
		if !ok {
			id = 9999
		}
		pend = append(pend, id)
	}
	st["pending"] = pend
	ex := make([]bool, len(txs))
	existed := make([]bool, len(txs))
	found := make([]bool, len(txs))
	for i, t := range txs {
		ex[i] = pool.GetExecuted(t.Hash) != nil
		if !skipLookups {
			existed[i] = pool.IsExisted(t.Hash)
		}
		g, err := pool.GetTransaction(t.Hash)
		found[i] = err == nil && g != nil && g.Hash == t.Hash
	}
	st["executed"] = ex
	st["existed"] = existed
	st["found"] = found
	return st
}

func ids(list []*types.Transaction) []int {
	out := make([]int, 0, len(list))
	for _, t := range list {
		id, ok := idOf[t.Hash]
		if !ok {
			id = 9999
		}
		out = append(out, id)
	}
	return out
}

func mark(tr *vutil.Trace, list []*types.Transaction, evicted []common.Hash, height uint64) {
	receipts := make(types.Receipts, 0, len(list))
	for _, t := range list {
		r := types.NewReceipt(nil, false, 0, height, "", t.Source, "")
		r.TxHash = t.Hash
		receipts = append(receipts, r)
	}
	h := &types.BlockHeader{Height: height}
	h.Hash = common.BytesToHash(common.Sha256([]byte(fmt.Sprintf("blk-%d-%d", histNo, height))))
	pool.MarkExecuted(h, receipts, list, evicted)
	evIds := make([]int, 0)
	for _, e := range evicted {
		evIds = append(evIds, idOf[e])
	}
	tr.Emit(map[string]interface{}{"event": "Mark", "txs": ids(list), "evicted": evIds, "state": project()})
}

func resetEvent(tr *vutil.Trace, universe []txRec, nonces map[int]int) {
	nl := make([]int, 12)
	for s, n := range nonces {
		nl[s-1] = n
	}
	// nonces is indexed by sender (1-based sequence in TLA+); senders are 1..12
	tr.Emit(map[string]interface{}{"event": "Reset", "txs": universe, "nonces": nl, "state": project()})
}

func runHistory(tr *vutil.Trace, universe []txRec, nonces map[int]int, h []op) int {
	newHistory(universe, nonces)
	resetEvent(tr, universe, nonces)
	var chain [][]*types.Transaction
	calls := 0
	for _, o := range h {
		switch o.Op {
		case "Add":
			ok, err := pool.AddTransaction(txs[o.T-1])
			tr.Emit(map[string]interface{}{"event": "Add", "t": o.T, "ok": ok && err == nil, "state": project()})
		case "Pack", "PackMark":
			out := pool.PackForCast(uint64(len(chain)+1), stateDB)
			tr.Emit(map[string]interface{}{"event": "Pack", "out": ids(out), "pre018": pre018, "state": project()})
			if o.Op == "PackMark" {
				calls++
				mark(tr, out, nil, uint64(len(chain)+1))
				chain = append(chain, out)
			}
		case "MarkOne":
			if pool.GetExecuted(txs[o.T-1].Hash) != nil {
				continue
			}
			list := []*types.Transaction{txs[o.T-1]}
			mark(tr, list, nil, uint64(len(chain)+1))
			chain = append(chain, list)
		case "MarkEvict": // a block that evicts t without executing it
			mark(tr, nil, []common.Hash{txs[o.T-1].Hash}, uint64(len(chain)+1))
			chain = append(chain, nil)
		case "Tick": // one pass of the container's ageing ticker
			service.VerifPoolTick()
			tr.Emit(map[string]interface{}{"event": "Tick", "state": project()})
		case "UnMarkLast":
			if len(chain) == 0 {
				continue
			}
			last := chain[len(chain)-1]
			chain = chain[:len(chain)-1]
			blk := &types.Block{Header: &types.BlockHeader{Height: uint64(len(chain) + 1)}, Transactions: last}
			pool.UnMarkExecuted(blk)
			tr.Emit(map[string]interface{}{"event": "UnMark", "txs": ids(last), "state": project()})
		default:
			vutil.Fatalf("unknown op %q", o.Op)
		}
		calls++
	}
	return calls
}

func main() {
	out := flag.String("out", "trace.ndjson", "")
	script := flag.String("script", "", "TLC histories over the TxPoolMC universe")
	nRandom := flag.Int("random", 0, "seeded random histories")
	length := flag.Int("len", 25, "length of random histories")
	nBig := flag.Int("big", 0, "histories with more pending transactions than the per-block limit")
	scratch := flag.String("scratch", "", "")
	conc := flag.String("conc", "", "TLC schedules of concurrent pool calls (spec/TxPoolConc.tla)")
	salt := flag.Int64("salt", 0, "")
	sizes := flag.String("sizes", "", "comma-separated block sizes for the block-size boundary histories")
	fullPool := flag.Bool("fullpool", false, "a reorg while the pool is at its size limit")
	tickRaceN := flag.Int("tickrace", 0, "rounds of booking + reorg with the ageing ticker running alongside")
	flag.Parse()
	if *scratch == "" {
		vutil.Fatalf("--scratch required")
	}
	outAbs, _ := filepath.Abs(*out)
	scriptAbs := ""
	if *script != "" {
		scriptAbs, _ = filepath.Abs(*script)
	}
	concAbs := ""
	if *conc != "" {
		concAbs, _ = filepath.Abs(*conc)
	}
	vutil.BootServices(*scratch)
	pool = service.GetTransactionPool()
	tr := vutil.NewTrace(outAbs)
	calls, nh := 0, 0
	if scriptAbs != "" {
		b, err := os.ReadFile(scriptAbs)
		if err != nil {
			vutil.Fatalf("read script: %v", err)
		}
		var hs [][]op
		if err := json.Unmarshal(b, &hs); err != nil {
			vutil.Fatalf("parse script: %v", err)
		}
		for _, h := range hs {
			calls += runHistory(tr, mcUniverse, map[int]int{1: 0, 2: 0, 9: 0}, h)
			nh++
		}
	}
	rng := vutil.Rng(17 + 1000**salt)
	for i := 0; i < *nRandom; i++ {
		// random universe: 3 nonce-checked senders with nonces around their state nonce
		// (duplicates included), a few request-id transactions
		nonces := map[int]int{1: rng.Intn(3), 2: rng.Intn(3), 3: rng.Intn(2), 9: 0}
		universe := make([]txRec, 0)
		for s := 1; s <= 3; s++ {
			for k := 0; k < 2+rng.Intn(4); k++ {
				universe = append(universe, txRec{s, nonces[s] + rng.Intn(5) - 1 + boolInt(nonces[s] == 0 && rng.Intn(2) == 0), 0})
			}
		}
		for k := 0; k < rng.Intn(4); k++ {
			universe = append(universe, txRec{9, 0, 1 + rng.Intn(20)})
		}
		for j := range universe {
			if universe[j].Nonce < 0 {
				universe[j].Nonce = 0
			}
		}
		h := make([]op, 0, *length)
		for j := 0; j < *length; j++ {
			switch r := rng.Intn(20); {
			case r < 9:
				h = append(h, op{"Add", 1 + rng.Intn(len(universe))})
			case r < 12:
				h = append(h, op{"Pack", 0})
			case r < 15:
				h = append(h, op{"PackMark", 0})
			case r < 16 && rng.Intn(3) == 0:
				h = append(h, op{"Tick", 0})
			case r < 16:
				h = append(h, op{"MarkOne", 1 + rng.Intn(len(universe))})
			case r < 17:
				h = append(h, op{"MarkEvict", 1 + rng.Intn(len(universe))})
			default:
				h = append(h, op{"UnMarkLast", 0})
			}
		}
		calls += runHistory(tr, universe, nonces, h)
		nh++
	}
	for i := 0; i < *nBig; i++ {
		// 230..420 pending transactions: 4 senders with long in-sequence runs, gaps and request ids
		universe := make([]txRec, 0)
		nonces := map[int]int{1: 0, 2: 3, 3: 0, 4: 1, 9: 0}
		n := 230 + rng.Intn(190)
		for len(universe) < n {
			s := 1 + rng.Intn(4)
			universe = append(universe, txRec{s, nonces[s] + rng.Intn(90), 0})
			if rng.Intn(6) == 0 {
				universe = append(universe, txRec{9, 0, 1 + rng.Intn(1000)})
			}
		}
		h := make([]op, 0)
		perm := rng.Perm(len(universe))
		for _, p := range perm {
			h = append(h, op{"Add", p + 1})
		}
		h = append(h, op{"Pack", 0}, op{"PackMark", 0}, op{"Pack", 0}, op{"UnMarkLast", 0}, op{"Pack", 0}, op{"PackMark", 0}, op{"PackMark", 0}, op{"Pack", 0})
		calls += runHistory(tr, universe, nonces, h)
		nh++
	}
	// block-size boundaries: a block of exactly k transactions (k around the pool's internal batch
	// sizes and the per-block limit) is packed, booked, looked up, re-submitted, removed by a reorg
	// and booked again
	if *sizes != "" {
		for _, f := range strings.Split(*sizes, ",") {
			k, err := strconv.Atoi(strings.TrimSpace(f))
			if err != nil || k <= 0 {
				vutil.Fatalf("bad --sizes entry %q", f)
			}
			universe := make([]txRec, 0, k)
			for i := 0; i < k; i++ {
				universe = append(universe, txRec{9, 0, 1 + i})
			}
			h := make([]op, 0, k+12)
			for i := 0; i < k; i++ {
				h = append(h, op{"Add", i + 1})
			}
			h = append(h, op{"PackMark", 0}, op{"Pack", 0}, op{"Add", 1}, op{"Add", k}, op{"Add", (k + 1) / 2}, op{"Add", min(k, 100)}, op{"Add", min(k, 101)},
				op{"UnMarkLast", 0}, op{"Pack", 0}, op{"PackMark", 0}, op{"Pack", 0}, op{"Add", k})
			calls += runHistory(tr, universe, map[int]int{9: 0}, h)
			nh++
			if k >= 150 { // the same below the Proposal018 height
				saved := common.LocalChainConfig.Proposal018Block
				common.LocalChainConfig.Proposal018Block = 1 << 50
				pre018 = true
				calls += runHistory(tr, universe, map[int]int{9: 0}, h)
				nh++
				pre018 = false
				common.LocalChainConfig.Proposal018Block = saved
			}
		}
	}
	if *tickRaceN > 0 {
		tickRace(tr, *tickRaceN)
	}
	if *fullPool {
		fullPoolReorg(tr)
		// expiry: pending transactions age with every tick and are dropped at the fifth; a booked
		// and re-added one starts anew
		universe := []txRec{{9, 0, 1}, {9, 0, 2}, {9, 0, 3}, {1, 0, 0}}
		h := []op{{"Add", 1}, {"Tick", 0}, {"Add", 2}, {"Tick", 0}, {"Tick", 0}, {"MarkOne", 2}, {"Add", 3}, {"Tick", 0}, {"UnMarkLast", 0}, {"Tick", 0},
			{"Pack", 0}, {"Add", 1}, {"Tick", 0}, {"Tick", 0}, {"Tick", 0}, {"Add", 4}, {"Tick", 0}, {"Tick", 0}, {"Pack", 0}}
		calls += runHistory(tr, universe, map[int]int{1: 0, 9: 0}, h)
		nh++
	}
	nconc := 0
	if concAbs != "" {
		nconc = concMode(tr, concAbs)
	}
	tr.Close()
	fmt.Printf("c17: histories=%d calls=%d events=%d schedules=%d\n", nh, calls, tr.N, nconc)
}

// fullPoolReorg: a block of three transactions is booked, the pool is then filled to its size
// limit (50 000 pending), and the block is removed by a reorg: its transactions must be pending
// again (and not executed) although the pool has no room. Reported as one compact event (the
// pending list is too long for the per-call projection).
func fullPoolReorg(tr *vutil.Trace) {
	newHistory(nil, map[int]int{9: 0})
	mkf := func(i int) *types.Transaction {
		t := &types.Transaction{Type: types.TransactionTypeOperatorEvent, Source: senderAddr(9), Data: fmt.Sprintf("h%d-full-%d;", histNo, i), RequestId: uint64(i + 1)}
		t.Hash = t.GenHash()
		return t
	}
	// two blocks: a short one and a full one (the removed blocks together carry more transactions
	// than one block holds)
	mkblk := func(from, n int) []*types.Transaction {
		b := make([]*types.Transaction, 0, n)
		for i := 0; i < n; i++ {
			b = append(b, mkf(from+i))
		}
		return b
	}
	blk1, blk2 := mkblk(0, 3), mkblk(3, 200)
	blk := append(append([]*types.Transaction{}, blk1...), blk2...)
	for _, t := range blk {
		pool.AddTransaction(t)
	}
	book := func(height uint64, b []*types.Transaction) *types.BlockHeader {
		rs := types.Receipts{}
		for _, t := range b {
			r := types.NewReceipt(nil, false, 0, 1, "", t.Source, "")
			r.TxHash = t.Hash
			rs = append(rs, r)
		}
		hd := &types.BlockHeader{Height: height, Hash: common.BytesToHash(common.Sha256([]byte(fmt.Sprintf("blk-full-%d-%d", histNo, height))))}
		pool.MarkExecuted(hd, rs, b, nil)
		return hd
	}
	h, h2 := book(1, blk1), book(2, blk2)
	filler := make([]common.Hash, 0, 50000)
	for i := 1000; len(filler) < 50000 && i < 200000; i++ {
		t := mkf(i)
		if ok, _ := pool.AddTransaction(t); ok && pool.IsExisted(t.Hash) {
			filler = append(filler, t.Hash)
		}
	}
	full := int(pool.TxNum())
	pool.UnMarkExecuted(&types.Block{Header: h2, Transactions: blk2})
	pool.UnMarkExecuted(&types.Block{Header: h, Transactions: blk1})
	pendingAgain, stillExecuted := 0, 0
	got := map[common.Hash]bool{}
	for _, t := range pool.GetReceived() {
		got[t.Hash] = true
	}
	for _, t := range blk {
		if got[t.Hash] {
			pendingAgain++
		}
		if pool.GetExecuted(t.Hash) != nil {
			stillExecuted++
		}
	}
	tr.Emit(map[string]interface{}{"event": "FullPoolReorg", "pendingBefore": full, "block": len(blk), "pendingAgain": pendingAgain,
		"stillExecuted": stillExecuted, "state": map[string]interface{}{"pending": []int{}, "executed": []bool{}, "existed": []bool{}, "found": []bool{}, "lookupSkipped": true}})
	// empty the pool again
	pool.MarkExecuted(&types.BlockHeader{}, nil, nil, filler)
	ev := []common.Hash{}
	for _, t := range blk {
		ev = append(ev, t.Hash)
	}
	pool.MarkExecuted(&types.BlockHeader{}, nil, nil, ev)
}

// tickRace: the container's ageing ticker runs on its own goroutine, outside the pool lock. In
// every round one pending transaction is booked while ageing passes run from the moment the
// executed record is written (gate mark.written) until the call returns; the block is then removed
// by a reorg: the transaction must be pending again, not executed, and found by the lookups.
func tickRace(tr *vutil.Trace, rounds int) {
	newHistory(nil, map[int]int{9: 0})
	lost, stillExecuted, lookupWrong := 0, 0, 0
	for r := 0; r < rounds; r++ {
		t := &types.Transaction{Type: types.TransactionTypeOperatorEvent, Source: senderAddr(9), Data: fmt.Sprintf("h%d-tick-%d;", histNo, r), RequestId: uint64(r + 1)}
		t.Hash = t.GenHash()
		pool.AddTransaction(t)
		stop := make(chan struct{})
		done := make(chan struct{})
		started := false
		service.VerifGate = func(point string, hash common.Hash) {
			if point == "mark.written" && !started {
				started = true
				go func() {
					defer close(done)
					for {
						select {
						case <-stop:
							return
						default:
							service.VerifPoolTick()
						}
					}
				}()
				runtime.Gosched()
			}
		}
		rc := types.NewReceipt(nil, false, 0, 1, "", t.Source, "")
		rc.TxHash = t.Hash
		h := &types.BlockHeader{Height: 1, Hash: common.BytesToHash(common.Sha256([]byte(fmt.Sprintf("blk-tick-%d-%d", histNo, r))))}
		pool.MarkExecuted(h, types.Receipts{rc}, []*types.Transaction{t}, nil)
		service.VerifGate = nil
		if started {
			close(stop)
			<-done
		}
		pool.UnMarkExecuted(&types.Block{Header: h, Transactions: []*types.Transaction{t}})
		pending := false
		for _, x := range pool.GetReceived() {
			if x.Hash == t.Hash {
				pending = true
			}
		}
		if !pending {
			lost++
		}
		if pool.GetExecuted(t.Hash) != nil {
			stillExecuted++
		}
		if g, err := pool.GetTransaction(t.Hash); err != nil || g == nil || !pool.IsExisted(t.Hash) {
			lookupWrong++
		}
		pool.MarkExecuted(&types.BlockHeader{}, nil, nil, []common.Hash{t.Hash})
	}
	tr.Emit(map[string]interface{}{"event": "TickRace", "rounds": rounds, "lost": lost, "stillExecuted": stillExecuted, "lookupWrong": lookupWrong,
		"state": map[string]interface{}{"pending": []int{}, "executed": []bool{}, "existed": []bool{}, "found": []bool{}, "lookupSkipped": true}})
}

func boolInt(b bool) int {
	if b {
		return 1
	}
	return 0
}

func min(a, b int) int {
	if a < b {
		return a
	}
	return b
}
