package main

import (
	"bytes"
	"com.tuntun.rangers/node/src/middleware/db"
	"encoding/json"
	"os"
	"runtime"
	"strconv"
	"sync"
	"time"

	"com.tuntun.rangers/node/src/common"
	"com.tuntun.rangers/node/src/middleware"
	"com.tuntun.rangers/node/src/middleware/types"
	"com.tuntun.rangers/node/src/service"
	"verif/harness/internal/vutil"
)

// Replay of TLC-generated schedules (spec/TxPoolConc.tla) on the real pool.
// Each thread is a goroutine making one real pool call; the gate hook H7 stops
// it after each of its unlocked critical sections; the controller releases the
// threads in the order of the schedule. A thread that cannot reach its next
// gate (because it waits for a lock another paused thread holds) is reported
// as blocked and the schedule goes on - so code that serialises the calls
// simply degenerates to one of the atomic orders.

type concScenario struct {
	Init  string `json:"init"`
	Op2   string `json:"op2"`
	Sched []int  `json:"sched"`
}

// pausingStore holds ONE existence lookup of one key between its store read and its return.
type pausingStore struct {
	db.Database
	key     []byte
	armed   bool
	reached chan struct{}
	release chan struct{}
}

func (p *pausingStore) Has(k []byte) (bool, error) {
	v, err := p.Database.Has(k)
	if p.armed && bytes.Equal(k, p.key) {
		p.armed = false
		close(p.reached)
		<-p.release
	}
	return v, err
}

var pstore *pausingStore

type thread struct {
	id      int
	goid    int64
	arrived chan string   // gate point reached
	resume  chan struct{} // released by the controller
	done    chan struct{}
	ok      bool
	started bool
	atGate  bool
	fin     bool
}

var (
	gateMu  sync.Mutex
	threads = map[int64]*thread{}
)

func goid() int64 {
	var buf [64]byte
	n := runtime.Stack(buf[:], false)
	f := bytes.Fields(buf[:n])
	id, _ := strconv.ParseInt(string(f[1]), 10, 64)
	return id
}

func gate(point string, hash common.Hash) {
	gateMu.Lock()
	th := threads[goid()]
	gateMu.Unlock()
	if th == nil {
		return
	}
	th.arrived <- point
	<-th.resume
}

func (th *thread) waitStop() string {
	select {
	case p := <-th.arrived:
		th.atGate = true
		return p
	case <-th.done:
		th.fin = true
		return "done"
	case <-time.After(40 * time.Millisecond):
		return "blocked"
	}
}

func runConc(tr *vutil.Trace, sc concScenario) {
	universe := []txRec{{1, 0, 0}, {1, 1, 0}}
	nonces := map[int]int{1: 0}
	for _, id := range sc.Sched {
		if id == 4 {
			skipLookups = true
		}
	}
	defer func() { skipLookups = false }()
	newHistory(universe, nonces)
	resetEvent(tr, universe, nonces)
	t := txs[0]
	switch sc.Init {
	case "pending":
		pool.AddTransaction(t)
	case "executed":
		mark(tr, []*types.Transaction{t}, nil, 1)
	}
	tr.Emit(map[string]interface{}{"event": "Prepared", "init": sc.Init, "state": project()})
	service.VerifGate = gate
	ths := map[int]*thread{}
	start := func(id int) *thread {
		th := &thread{id: id, arrived: make(chan string, 1), resume: make(chan struct{}), done: make(chan struct{})}
		ready := make(chan struct{})
		go func() {
			gateMu.Lock()
			threads[goid()] = th
			gateMu.Unlock()
			close(ready)
			op := "Add"
			if id == 2 {
				op = sc.Op2
			}
			switch op {
			case "Add":
				ok, err := pool.AddTransaction(t)
				th.ok = ok && err == nil
			case "Mark": // block bookkeeping runs under the chain lock, as in AddBlockOnChain
				middleware.LockBlockchain("verif-mark")
				r := types.NewReceipt(nil, false, 0, 2, "", t.Source, "")
				r.TxHash = t.Hash
				pool.MarkExecuted(&types.BlockHeader{Height: 2}, types.Receipts{r}, []*types.Transaction{t}, nil)
				middleware.UnLockBlockchain("verif-mark")
				th.ok = true
			case "UnMark":
				middleware.LockBlockchain("verif-unmark")
				pool.UnMarkExecuted(&types.Block{Header: &types.BlockHeader{Height: 2}, Transactions: []*types.Transaction{t}})
				middleware.UnLockBlockchain("verif-unmark")
				th.ok = true
			}
			gateMu.Lock()
			delete(threads, goid())
			gateMu.Unlock()
			close(th.done)
		}()
		<-ready
		th.started = true
		return th
	}
	followed := make([]string, 0)
	var lookDone chan bool
	lookPaused := false
	for _, id := range sc.Sched {
		if id == 4 {
			// a lock-free existence lookup in two steps: the store read, the return
			if lookDone == nil {
				pstore.key, pstore.reached, pstore.release = t.Hash.Bytes(), make(chan struct{}), make(chan struct{})
				pstore.armed = true
				lookDone = make(chan bool, 1)
				go func() { lookDone <- pool.IsExisted(t.Hash) }()
				select {
				case <-pstore.reached:
					lookPaused = true
					followed = append(followed, "lookup.read")
				case <-lookDone: // answered from the pending container
					pstore.armed = false
					lookDone <- true
					followed = append(followed, "lookup.pending")
				case <-time.After(5 * time.Second):
					vutil.Fatalf("conc: lookup neither paused nor returned")
				}
			} else {
				if lookPaused {
					lookPaused = false
					close(pstore.release)
				}
				select {
				case <-lookDone:
				case <-time.After(5 * time.Second):
					vutil.Fatalf("conc: lookup did not return")
				}
				followed = append(followed, "lookup.return")
			}
			continue
		}
		if id == 3 {
			// a lock-free reader between two critical sections of the other threads: the block
			// proposer packing, the rpc layer listing the pool
			pool.PackForCast(3, stateDB)
			pool.GetReceived()
			followed = append(followed, "read")
			continue
		}
		th := ths[id]
		if th == nil {
			th = start(id)
			ths[id] = th
			followed = append(followed, th.waitStop())
			continue
		}
		if th.fin {
			followed = append(followed, "done")
			continue
		}
		if th.atGate {
			th.atGate = false
			th.resume <- struct{}{}
		}
		followed = append(followed, th.waitStop())
	}
	if lookPaused {
		close(pstore.release)
		<-lookDone
	}
	// let everything finish
	for _, th := range ths {
		for !th.fin {
			if th.atGate {
				th.atGate = false
				th.resume <- struct{}{}
			}
			select {
			case <-th.arrived:
				th.atGate = true
			case <-th.done:
				th.fin = true
			case <-time.After(5 * time.Second):
				vutil.Fatalf("conc: thread %d stuck", th.id)
			}
		}
	}
	service.VerifGate = nil
	skipLookups = false
	ok1, ok2 := false, false
	if ths[1] != nil {
		ok1 = ths[1].ok
	}
	if ths[2] != nil {
		ok2 = ths[2].ok
	}
	tr.Emit(map[string]interface{}{"event": "Conc", "init": sc.Init, "op2": sc.Op2, "sched": sc.Sched,
		"followed": followed, "ok1": ok1, "ok2": ok2, "state": project()})
	out := pool.PackForCast(3, stateDB)
	tr.Emit(map[string]interface{}{"event": "Pack", "out": ids(out), "pre018": false, "state": project()})
}

func concMode(tr *vutil.Trace, path string) int {
	b, err := os.ReadFile(path)
	if err != nil {
		vutil.Fatalf("read schedules: %v", err)
	}
	var scs []concScenario
	if err := json.Unmarshal(b, &scs); err != nil {
		vutil.Fatalf("parse schedules: %v", err)
	}
	service.VerifWrapExecutedStore(func(d db.Database) db.Database {
		pstore = &pausingStore{Database: d}
		return pstore
	})
	for _, sc := range scs {
		runConc(tr, sc)
	}
	return len(scs)
}
