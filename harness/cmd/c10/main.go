// c10 runs programs over the computational opcode set on the real EVM
// (vm.NewEVM(...).Call on a real AccountDB) and records, through hook H6, one
// ndjson event per interpreter step for spec/EvmTrace.tla.
//
// Programs come from three sources: a seeded generator biased to boundary
// operands, a script of TLC-generated programs with the final state
// spec/EvmGen.tla predicts, and the repository's own src/vm/testdata vectors.
package main

import (
	"encoding/hex"
	"encoding/json"
	"flag"
	"fmt"
	"math/big"
	"math/rand"
	"os"
	"path/filepath"
	"sort"
	"strings"

	"com.tuntun.rangers/node/src/vm"
	eu "verif/harness/internal/evmutil"
	"verif/harness/internal/vutil"
)

// Gas per program: far above what any generated program needs under the reference semantics, small enough that
// even a program that loops on changed code ends after some ten thousand steps.
const gasLimit = 400000

// maxEvents bounds the trace of one driver process (a harness error beyond it: the check ends inconclusive).
const maxEvents = 600000

type tlcProg struct {
	Code   []int   `json:"code"`
	Data   []int   `json:"data"`
	Stack  [][]int `json:"stack"`
	Mem    []int   `json:"mem"`
	Status string  `json:"status"`
	Ret    []int   `json:"ret"`
	Skip   int     `json:"skip"` // steps of the program's prefix that are not recorded one by one (Sync event instead)
}

// steps of the next program that are replaced by one Sync event
var skipSteps int

// call data of the matrix programs (37 bytes: not a multiple of the word size)
var matrixData = func() []byte {
	d := make([]byte, 37)
	for i := range d {
		d[i] = byte(0xa0 + i)
	}
	return d
}()

// gas of the next program: call trees get more, because a callee that faults takes 63/64 of the gas with it
var progGas uint64 = gasLimit

var (
	tr     *vutil.Trace
	rec    *eu.Recorder
	height uint64
	runID  int
	stats  = map[string]int{}
)

func toBytes(a []int) []byte {
	b := make([]byte, len(a))
	for i, x := range a {
		b[i] = byte(x)
	}
	return b
}

// runProgram executes code on the real EVM; the recorder emits the steps.
// It returns the observed end of the outermost call.
type otherContract struct {
	ID   int   `json:"id"`
	Code []int `json:"code"`
}

type tree struct {
	Fam    string          `json:"fam"`
	Code   []int           `json:"code"`
	Others []otherContract `json:"others"`
}

// contracts deployed next to the program under test (call trees)
var extra []otherContract

func runProgram(src string, code, data []byte) (status string, ret []byte) {
	runID++
	st := eu.NewState()
	for _, o := range extra {
		st.CreateAccount(eu.Addr(o.ID))
		st.SetCode(eu.Addr(o.ID), toBytes(o.Code))
	}
	addr := eu.Addr(1)
	st.CreateAccount(addr)
	st.SetCode(addr, code)
	st.AddBalance(eu.Origin, big.NewInt(1000000))
	evm := eu.NewEVM(st, height, progGas)
	tr.Emit(map[string]interface{}{"event": "Begin", "run": runID, "src": src, "code": eu.ByteInts(code),
		"data": eu.ByteInts(data), "depth": 1})
	rec.BeginRun(runID)
	rec.Cancel = evm.Cancel
	rec.SkipSteps = skipSteps
	var err error
	func() {
		defer func() {
			if p := recover(); p != nil {
				err = fmt.Errorf("panic: %v", p)
			}
		}()
		ret, _, _, err = evm.Call(vm.AccountRef(eu.Origin), addr, data, progGas, big.NewInt(0))
	}()
	cls := eu.ErrClass(err)
	tr.Emit(map[string]interface{}{"event": "End", "run": runID, "depth": 1, "err": cls, "ret": eu.ByteInts(ret),
		"steps": rec.Steps, "cancelled": rec.Cancelled, "truncated": rec.Truncated})
	if tr.N > maxEvents {
		vutil.Fatalf("trace budget of %d events exceeded", maxEvents)
	}
	if rec.Truncated {
		stats["truncated_runs"]++
	}
	stats["programs"]++
	stats["steps"] += rec.Steps
	switch {
	case err == nil:
		status = "ok"
	case cls == "revert":
		status = "revert"
	default:
		if cls == "gasoverflow" {
			cls = "oog" // the reference has one class for a memory range no gas can pay
		}
		status = "fault:" + cls
	}
	return status, ret
}

// ---------------------------------------------------------------- operands

var (
	one    = big.NewInt(1)
	two256 = new(big.Int).Lsh(one, 256)
)

func pow2(k uint) *big.Int { return new(big.Int).Lsh(one, k) }

func wrap(x *big.Int) *big.Int { return new(big.Int).Mod(x, two256) }

// biased returns a 256-bit value: mostly boundary values and their neighbours.
func biased(r *rand.Rand) *big.Int {
	switch r.Intn(12) {
	case 0:
		return big.NewInt(int64(r.Intn(4))) // 0 1 2 3
	case 1:
		return wrap(new(big.Int).Sub(two256, big.NewInt(int64(1+r.Intn(3))))) // 2^256-1..-3 (negative small)
	case 2:
		return wrap(new(big.Int).Add(pow2(255), big.NewInt(int64(r.Intn(3)-1)))) // 2^255-1, 2^255, 2^255+1
	case 3:
		k := []uint{8, 16, 32, 63, 64, 65, 127, 128, 129, 191, 192, 248, 254}[r.Intn(13)]
		return wrap(new(big.Int).Add(pow2(k), big.NewInt(int64(r.Intn(3)-1))))
	case 4:
		return big.NewInt(int64(r.Intn(300)))
	case 5: // negative with small magnitude
		return wrap(new(big.Int).Sub(two256, big.NewInt(int64(1+r.Intn(1000)))))
	case 6: // random of random byte length
		n := 1 + r.Intn(32)
		b := make([]byte, n)
		r.Read(b)
		return new(big.Int).SetBytes(b)
	case 7: // byte patterns
		b := make([]byte, 32)
		pat := []byte{0x00, 0xff, 0x80, 0x7f, 0x01}
		for i := range b {
			b[i] = pat[r.Intn(len(pat))]
		}
		return new(big.Int).SetBytes(b)
	case 8:
		return big.NewInt(int64(r.Intn(1 << 16)))
	default:
		b := make([]byte, 32)
		r.Read(b)
		return new(big.Int).SetBytes(b)
	}
}

func shiftCount(r *rand.Rand) *big.Int {
	small := []int64{0, 1, 7, 8, 9, 15, 16, 63, 64, 65, 127, 128, 200, 254, 255, 256, 257, 300, 511, 512}
	edge := []int64{0, 1, 8, 248, 254, 255, 256, 257}
	switch r.Intn(8) {
	case 0:
		return biased(r)
	case 1:
		return pow2([]uint{32, 63, 64, 128, 255}[r.Intn(5)])
	case 2, 3, 4:
		return big.NewInt(edge[r.Intn(len(edge))])
	default:
		return big.NewInt(small[r.Intn(len(small))])
	}
}

// shiftValue: operands of shifts, byte extraction and sign extension: the top bit and the
// lowest bit matter at the boundaries
func shiftValue(r *rand.Rand) *big.Int {
	switch r.Intn(4) {
	case 0:
		return wrap(new(big.Int).Or(biased(r), pow2(255)))
	case 1:
		return wrap(new(big.Int).Or(biased(r), one))
	default:
		return biased(r)
	}
}

func byteIndex(r *rand.Rand) *big.Int {
	small := []int64{0, 1, 2, 15, 16, 29, 30, 31, 32, 33, 63, 255, 256}
	if r.Intn(6) == 0 {
		return biased(r)
	}
	return big.NewInt(small[r.Intn(len(small))])
}

// --------------------------------------------------------------- generator

type gen struct {
	r        *rand.Rand
	a        *eu.Asm
	depth    int // tracked operand stack height
	nlabel   int
	exp      *int // remaining heavy EXP budget
	data     []byte
	haveRD   int // length of the return data buffer once the identity call was made
	memBound int
}

func (g *gen) push(v *big.Int) { g.a.Push(v.Bytes()); g.depth++ }
func (g *gen) pushI(x int)     { g.a.PushInt(uint64(x)); g.depth++ }
func (g *gen) op(o byte, pops, pushes int) {
	g.a.Op(o)
	g.depth += pushes - pops
}
func (g *gen) label() string { g.nlabel++; return fmt.Sprintf("L%d", g.nlabel) }
func (g *gen) off() int {
	c := []int{0, 1, 31, 32, 33, 63, 64, 65, 96, 100, 127, 128, 160, 200, 255, 256}
	return c[g.r.Intn(len(c))]
}

var binops = []byte{eu.ADD, eu.MUL, eu.SUB, eu.DIV, eu.SDIV, eu.MOD, eu.SMOD, eu.EXP, eu.SIGNEXTEND, eu.LT, eu.GT,
	eu.SLT, eu.SGT, eu.EQ, eu.AND, eu.OR, eu.XOR, eu.BYTE, eu.SHL, eu.SHR, eu.SAR}

func (g *gen) binop(o byte) {
	r := g.r
	var a, b *big.Int // a ends on top
	switch o {
	case eu.SHL, eu.SHR, eu.SAR:
		a, b = shiftCount(r), shiftValue(r)
	case eu.BYTE:
		a, b = byteIndex(r), shiftValue(r)
	case eu.SIGNEXTEND:
		a, b = byteIndex(r), shiftValue(r)
	case eu.EXP:
		a = biased(r)
		if *g.exp > 0 && r.Intn(3) == 0 {
			*g.exp--
			b = biased(r)
		} else {
			b = big.NewInt(int64(r.Intn(70)))
			if r.Intn(4) == 0 {
				b = big.NewInt(int64(250 + r.Intn(20)))
			}
		}
	case eu.DIV, eu.SDIV, eu.MOD, eu.SMOD:
		a, b = biased(r), biased(r)
		if r.Intn(5) == 0 {
			b = big.NewInt(0)
		}
		if r.Intn(6) == 0 { // -2^255 / -1
			a, b = pow2(255), wrap(new(big.Int).Sub(two256, one))
		}
	default:
		a, b = biased(r), biased(r)
		if r.Intn(8) == 0 {
			b = a
		}
	}
	g.push(b)
	g.push(a)
	g.op(o, 2, 1)
}

func (g *gen) snippet() {
	r := g.r
	switch k := r.Intn(100); {
	case k < 38:
		g.binop(binops[r.Intn(len(binops))])
	case k < 44: // ternary
		n := biased(r)
		if r.Intn(4) == 0 {
			n = big.NewInt(int64(r.Intn(3)))
		}
		g.push(n)
		g.push(biased(r))
		g.push(biased(r))
		g.op([]byte{eu.ADDMOD, eu.MULMOD}[r.Intn(2)], 3, 1)
	case k < 48:
		g.push(biased(r))
		g.op([]byte{eu.NOT, eu.ISZERO}[r.Intn(2)], 1, 1)
	case k < 53: // operate on what is on the stack
		if g.depth >= 2 {
			g.op([]byte{eu.ADD, eu.SUB, eu.XOR, eu.AND, eu.OR, eu.LT, eu.SGT, eu.EQ, eu.MUL}[r.Intn(9)], 2, 1)
		} else {
			g.push(biased(r))
		}
	case k < 59: // DUP / SWAP
		if g.depth >= 1 && r.Intn(2) == 0 {
			n := 1 + r.Intn(min(g.depth, 16))
			g.op(byte(eu.DUP1+n-1), 0, 1)
		} else if g.depth >= 2 {
			n := 1 + r.Intn(min(g.depth-1, 16))
			g.op(byte(eu.SWAP1+n-1), 0, 0)
		} else {
			g.push(biased(r))
		}
	case k < 63: // PUSHn with exactly n bytes, PUSH0
		n := r.Intn(33)
		if n == 0 {
			g.op(eu.PUSH0, 0, 1)
		} else {
			b := make([]byte, n)
			r.Read(b)
			if r.Intn(3) == 0 {
				b[0] = 0
			}
			if r.Intn(3) == 0 {
				b[r.Intn(n)] = eu.JUMPDEST
			}
			g.a.PushN(n, b)
			g.depth++
		}
	case k < 69: // MSTORE / MSTORE8
		g.push(biased(r))
		g.pushI(g.off())
		g.op([]byte{eu.MSTORE, eu.MSTORE, eu.MSTORE8}[r.Intn(3)], 2, 0)
	case k < 73:
		g.pushI(g.off())
		g.op(eu.MLOAD, 1, 1)
	case k < 75:
		g.op(eu.MSIZE, 0, 1)
	case k < 79: // MCOPY dst src len (overlaps likely)
		g.pushI([]int{0, 1, 5, 31, 32, 33, 64, 70}[r.Intn(8)])
		g.pushI(g.off())
		g.pushI(g.off())
		g.op(eu.MCOPY, 3, 0)
	case k < 83: // call data
		switch r.Intn(3) {
		case 0:
			offs := []*big.Int{big.NewInt(0), big.NewInt(1), big.NewInt(int64(len(g.data))), big.NewInt(int64(max(0, len(g.data)-31))),
				big.NewInt(int64(len(g.data) + 1)), pow2(64), wrap(new(big.Int).Sub(two256, one)), big.NewInt(int64(r.Intn(len(g.data) + 1)))}
			g.push(offs[r.Intn(len(offs))])
			g.op(eu.CALLDATALOAD, 1, 1)
		case 1:
			g.op(eu.CALLDATASIZE, 0, 1)
		default:
			g.pushI([]int{0, 1, 7, 32, 40}[r.Intn(5)])
			offs := []*big.Int{big.NewInt(0), big.NewInt(3), big.NewInt(int64(len(g.data))), big.NewInt(int64(len(g.data) + 5)), pow2(64), pow2(200)}
			g.push(offs[r.Intn(len(offs))])
			g.pushI(g.off())
			g.op(eu.CALLDATACOPY, 3, 0)
		}
	case k < 86: // code
		if r.Intn(3) == 0 {
			g.op(eu.CODESIZE, 0, 1)
		} else {
			g.pushI([]int{0, 1, 9, 32, 50}[r.Intn(5)])
			offs := []*big.Int{big.NewInt(0), big.NewInt(int64(r.Intn(g.a.Len() + 1))), big.NewInt(int64(g.a.Len())), big.NewInt(4000), pow2(64), pow2(255)}
			g.push(offs[r.Intn(len(offs))])
			g.pushI(g.off())
			g.op(eu.CODECOPY, 3, 0)
		}
	case k < 89: // return data (after an identity precompile call)
		if g.haveRD == 0 {
			n := 1 + r.Intn(40)
			// CALL(gas, 4, 0, in, n, out, outLen)
			g.pushI([]int{0, n, n / 2}[r.Intn(3)])
			g.pushI(g.off())
			g.pushI(n)
			g.pushI(g.off())
			g.pushI(0)
			g.pushI(4)
			g.pushI(100000)
			g.op(eu.CALL, 7, 1)
			g.haveRD = n
		}
		if r.Intn(3) == 0 {
			g.op(eu.RETURNDATASIZE, 0, 1)
		} else {
			l := r.Intn(g.haveRD + 1)
			o := r.Intn(g.haveRD - l + 1)
			g.pushI(l)
			g.pushI(o)
			g.pushI(g.off())
			g.op(eu.RETURNDATACOPY, 3, 0)
		}
	case k < 91:
		g.op(eu.PC, 0, 1)
	case k < 93: // SHA3
		g.pushI([]int{0, 1, 31, 32, 33, 64, 100}[r.Intn(7)])
		g.pushI(g.off())
		g.op(eu.SHA3, 2, 1)
	case k < 96: // forward jump over junk that contains JUMPDEST bytes inside push data
		l := g.label()
		if r.Intn(2) == 0 {
			g.a.PushLabel(l)
			g.op(eu.JUMP, 0, 0)
			junk := [][]byte{{eu.PUSH1, eu.JUMPDEST}, {eu.PUSH2, eu.JUMPDEST, eu.JUMPDEST}, {0xfe}, {eu.PUSH1 + 4, 1, eu.JUMPDEST, 3, 4, eu.JUMPDEST}}
			for i := r.Intn(3); i >= 0; i-- {
				g.a.Op(junk[r.Intn(len(junk))]...)
			}
		} else {
			cond := []*big.Int{big.NewInt(0), big.NewInt(1), pow2(255), pow2(64), big.NewInt(0)}[r.Intn(5)]
			g.push(cond)
			g.a.PushLabel(l)
			g.depth++
			g.op(eu.JUMPI, 2, 0)
			g.push(biased(r)) // fall-through code, stack neutral
			g.op(eu.POP, 1, 0)
		}
		g.a.Label(l)
	case k < 98: // counted loop: n iterations
		n := 1 + r.Intn(4)
		l := g.label()
		g.pushI(n)
		g.a.Label(l)
		g.pushI(1)
		g.op(eu.SWAP1, 0, 0)
		g.op(eu.SUB, 2, 1)
		g.op(eu.DUP1, 0, 1)
		g.a.PushLabel(l)
		g.depth++
		g.op(eu.JUMPI, 2, 0)
		g.op(eu.POP, 1, 0)
	default:
		if g.depth > 0 {
			g.op(eu.POP, 1, 0)
		} else {
			g.op(eu.JUMPDEST, 0, 0)
		}
	}
	for g.depth > 12 {
		g.op(eu.POP, 1, 0)
	}
}

// terminal ends the program: normal halts and the faults of the computational set.
func (g *gen) terminal() {
	r := g.r
	switch k := r.Intn(100); {
	case k < 25: // run off the end of the code (implicit STOP)
	case k < 32:
		g.op(eu.STOP, 0, 0)
	case k < 52:
		g.pushI([]int{0, 1, 32, 33, 64, 100}[r.Intn(6)])
		g.pushI(g.off())
		g.op([]byte{eu.RETURN, eu.REVERT}[r.Intn(2)], 2, 0)
	case k < 70: // invalid jumps
		switch r.Intn(5) {
		case 0: // into push data that holds a JUMPDEST byte
			g.a.PushInt(uint64(g.a.Len() + 5))
			g.a.Op(eu.JUMP, eu.PUSH1, eu.JUMPDEST, eu.STOP)
		case 1: // to a byte that is not a JUMPDEST (offset 0, unless the program happens to start with one:
			// that would be a valid backward jump and the program would loop until its gas is gone)
			if b := g.a.Bytes(); len(b) > 0 && b[0] == eu.JUMPDEST {
				g.a.PushInt(uint64(g.a.Len() + 200))
			} else {
				g.a.PushInt(0)
			}
			g.a.Op(eu.JUMP)
		case 2: // beyond the code
			g.a.PushInt(uint64(g.a.Len() + 200))
			g.a.Op(eu.JUMP)
		case 3: // destination does not fit in 64 bits but its low bits name a JUMPDEST
			l := g.label()
			g.a.Label(l)
			v := new(big.Int).Add(pow2(64+uint(r.Intn(190))), big.NewInt(int64(g.a.Len()-1)))
			g.a.Push(v.Bytes())
			g.a.Op(eu.JUMP)
		default: // JUMPI taken into push data
			g.a.PushInt(1)
			g.a.PushInt(uint64(g.a.Len() + 5))
			g.a.Op(eu.JUMPI, eu.PUSH1, eu.JUMPDEST, eu.STOP)
		}
	case k < 76: // return data copy out of bounds (also with length 0)
		g.pushI([]int{0, 1, 5}[r.Intn(3)])
		g.pushI(g.haveRD + 1 + r.Intn(3))
		g.pushI(0)
		g.op(eu.RETURNDATACOPY, 3, 0)
	case k < 82: // stack underflow
		for g.depth > 0 {
			g.op(eu.POP, 1, 0)
		}
		g.a.Op([]byte{eu.ADD, eu.POP, eu.DUP1, eu.SWAP1, eu.MSTORE, eu.JUMP, eu.MCOPY, eu.ADDMOD}[r.Intn(8)])
	case k < 87: // truncated PUSH at the end of the code
		n := 2 + r.Intn(31)
		g.a.Op(byte(eu.PUSH1 + n - 1))
		for i := r.Intn(n); i > 0; i-- {
			g.a.Op(byte(r.Intn(256)))
		}
	case k < 92: // memory requirement no gas can pay
		g.push(biased(r))
		g.push([]*big.Int{pow2(32), pow2(64), pow2(255), wrap(new(big.Int).Sub(two256, one)), new(big.Int).Sub(pow2(64), big.NewInt(31))}[r.Intn(5)])
		g.op([]byte{eu.MSTORE, eu.MLOAD, eu.MSTORE8}[r.Intn(3)], 0, 0)
	default:
		// (stack overflow needs a 1024-deep stack image per step: covered by C11 without values)
		g.a.Op(eu.INVALID)
	}
}

func genProgram(r *rand.Rand, nsnip int, exp *int) (code, data []byte) {
	data = make([]byte, []int{0, 1, 4, 31, 32, 33, 64, 68}[r.Intn(8)])
	r.Read(data)
	g := &gen{r: r, a: eu.NewAsm(), exp: exp, data: data}
	for i := 0; i < nsnip; i++ {
		g.snippet()
	}
	g.terminal()
	return g.a.Bytes(), data
}

// ------------------------------------------------------------------- matrix

// matrixPrograms: every operation on the cross product of its boundary operands
// (shift counts around 256, byte / extension indexes around 32, the signed and
// unsigned extremes), 16 operations per program. full adds the wider operand
// sets of the expensive operations (division, modular arithmetic).
func matrixPrograms(full bool) [][]byte {
	b := func(x int64) *big.Int { return big.NewInt(x) }
	max := wrap(new(big.Int).Sub(two256, one))
	p255 := pow2(255)
	ext := []*big.Int{b(0), b(1), b(2), new(big.Int).Sub(p255, one), p255, wrap(new(big.Int).Add(p255, one)), wrap(new(big.Int).Sub(max, one)), max}
	few := []*big.Int{b(0), b(1), b(3), p255, max}
	type tri struct {
		op   byte
		a, b *big.Int
	}
	var ts []tri
	cross := func(ops []byte, as, bs []*big.Int) {
		for _, o := range ops {
			for _, x := range as {
				for _, y := range bs {
					ts = append(ts, tri{o, x, y})
				}
			}
		}
	}
	shifts := []*big.Int{b(0), b(1), b(7), b(8), b(254), b(255), b(256), b(257), pow2(64), max}
	vals := []*big.Int{b(1), b(0x80), p255, wrap(new(big.Int).Add(p255, one)), max, new(big.Int).Sub(p255, one)}
	cross([]byte{eu.SHL, eu.SHR, eu.SAR}, shifts, vals)
	idx := []*big.Int{b(0), b(1), b(15), b(30), b(31), b(32), b(33), pow2(64), max}
	pat, _ := new(big.Int).SetString("0102030405060708090a0b0c0d0e0f101112131415161718191a1b1c1d1e1f20", 16)
	sgn, _ := new(big.Int).SetString("80ff7f80ff7f80ff7f80ff7f80ff7f80ff7f80ff7f80ff7f80ff7f80ff7f80ff", 16)
	cross([]byte{eu.BYTE, eu.SIGNEXTEND}, idx, []*big.Int{pat, sgn, max, b(0x80), b(0x7f), b(0xff80), b(0x8000)})
	cross([]byte{eu.LT, eu.GT, eu.SLT, eu.SGT, eu.EQ, eu.ADD, eu.SUB}, ext, ext)
	cross([]byte{eu.AND, eu.OR, eu.XOR}, few, []*big.Int{pat, max, b(0)})
	if full {
		cross([]byte{eu.DIV, eu.SDIV, eu.MOD, eu.SMOD, eu.MUL}, ext, ext)
		cross([]byte{eu.EXP}, []*big.Int{b(0), b(1), b(2), b(3), max, p255}, []*big.Int{b(0), b(1), b(2), b(255), b(256), b(257)})
	} else {
		cross([]byte{eu.DIV, eu.SDIV, eu.MOD, eu.SMOD, eu.MUL}, few, few)
		cross([]byte{eu.EXP}, []*big.Int{b(0), b(2), max}, []*big.Int{b(0), b(1), b(255), b(256)})
	}
	var progs [][]byte
	for i := 0; i < len(ts); i += 16 {
		a := eu.NewAsm()
		for _, t := range ts[i:min(i+16, len(ts))] {
			a.Push(t.b.Bytes()).Push(t.a.Bytes()).Op(t.op, eu.POP)
		}
		progs = append(progs, a.Bytes())
	}
	// ternary operations: modulus 0, 1, 2, 2^255, max with operands whose sum / product exceeds 2^256
	a := eu.NewAsm()
	for _, o := range []byte{eu.ADDMOD, eu.MULMOD} {
		for _, n := range []*big.Int{b(0), b(1), b(2), p255, max} {
			for _, xy := range [][2]*big.Int{{max, max}, {p255, p255}, {max, b(1)}, {b(0), max}} {
				a.Push(n.Bytes()).Push(xy[1].Bytes()).Push(xy[0].Bytes()).Op(o, eu.POP)
			}
		}
	}
	progs = append(progs, a.Bytes())
	return append(progs, flowAndCopyPrograms()...)
}

// flowAndCopyPrograms: (A) JUMPI with every class of destination operand, not taken and taken;
// (B) the copy instructions into memory that already holds non-zero bytes, with source ranges
// that straddle, touch or lie beyond the end of the code / call data (up to 2^256-1).
func flowAndCopyPrograms() [][]byte {
	var progs [][]byte
	max := wrap(new(big.Int).Sub(two256, one))
	// (A) byte 1 of the program is a 0x5b inside push data, byte 0 is not a JUMPDEST
	dests := []*big.Int{big.NewInt(1), big.NewInt(0), big.NewInt(2), big.NewInt(0xffff), pow2(63), pow2(64),
		wrap(new(big.Int).Add(pow2(64), big.NewInt(3))), pow2(255), max}
	a := eu.NewAsm()
	a.Op(eu.PUSH1, eu.JUMPDEST, eu.POP)
	for _, d := range dests { // condition zero: the destination operand is irrelevant
		a.Op(eu.PUSH0).Push(d.Bytes()).Op(eu.JUMPI)
	}
	a.Op(eu.PUSH0).PushLabel("ok").Op(eu.JUMPI)    // not taken, valid label
	a.PushInt(1).PushLabel("ok").Op(eu.JUMPI)      // taken, valid label
	a.Op(eu.INVALID).Label("ok").Op(eu.PC, eu.POP) // skipped / landed
	progs = append(progs, a.Bytes())
	for _, d := range dests[:6] { // condition non-zero: every one of them is an invalid jump
		b := eu.NewAsm().Op(eu.PUSH1, eu.JUMPDEST, eu.POP)
		b.Push(pow2(200).Bytes()).Push(d.Bytes()).Op(eu.JUMPI, eu.STOP)
		progs = append(progs, b.Bytes())
	}
	// (B)
	type src struct {
		rel  int // >= 0: end of the source minus rel; < 0: absolute value abs
		abs  *big.Int
		plus int // end of the source plus plus
	}
	srcs := []src{{rel: 5}, {rel: 1}, {rel: 0}, {rel: -1, abs: nil, plus: 7}, {rel: -1, abs: big.NewInt(4000)},
		{rel: -1, abs: new(big.Int).Sub(pow2(64), one)}, {rel: -1, abs: pow2(64)}, {rel: -1, abs: pow2(255)}, {rel: -1, abs: max}}
	lens := []int{1, 32, 40}
	dsts := []int{0, 3, 50}
	for _, op := range []byte{eu.CODECOPY, eu.CALLDATACOPY} {
		n := 0
		var c *eu.Asm
		flush := func() {
			if c != nil {
				c.Op(eu.STOP).Mark("end")
				progs = append(progs, c.Bytes())
				c = nil
			}
		}
		for si, sc := range srcs {
			for li, l := range lens {
				if c == nil {
					c = eu.NewAsm()
				}
				d := dsts[(si+li)%3]
				// dirty the window: 64 bytes of 0xff from d
				c.Push(max.Bytes()).PushInt(uint64(d)).Op(eu.MSTORE).Push(max.Bytes()).PushInt(uint64(d + 32)).Op(eu.MSTORE)
				c.PushInt(uint64(l))
				endOf := func() {
					if op == eu.CODECOPY {
						c.PushLabel("end")
					} else {
						c.Op(eu.CALLDATASIZE)
					}
				}
				switch {
				case sc.rel >= 0:
					c.PushInt(uint64(sc.rel))
					endOf()
					c.Op(eu.SUB)
				case sc.abs == nil:
					c.PushInt(uint64(sc.plus))
					endOf()
					c.Op(eu.ADD)
				default:
					c.Push(sc.abs.Bytes())
				}
				c.PushInt(uint64(d)).Op(op)
				// read the window back so that stale bytes also show on the stack
				c.PushInt(uint64(d)).Op(eu.MLOAD, eu.POP)
				n++
				if n%6 == 0 {
					flush()
				}
			}
		}
		flush()
	}
	// CALLDATALOAD around the end of the call data, MCOPY over dirty, overlapping windows
	m := eu.NewAsm()
	for _, rel := range []int{33, 32, 31, 1, 0} {
		m.PushInt(uint64(rel)).Op(eu.CALLDATASIZE, eu.SUB, eu.CALLDATALOAD, eu.POP)
	}
	for _, x := range []*big.Int{pow2(64), pow2(255), max} {
		m.Push(x.Bytes()).Op(eu.CALLDATALOAD, eu.POP)
	}
	m.Push(max.Bytes()).Op(eu.PUSH0, eu.MSTORE).Push(pow2(255).Bytes()).PushInt(32).Op(eu.MSTORE)
	for _, t := range [][3]int{{1, 0, 40}, {0, 1, 40}, {31, 33, 2}, {64, 0, 64}, {10, 10, 5}, {0, 60, 0}} {
		m.PushInt(uint64(t[2])).PushInt(uint64(t[1])).PushInt(uint64(t[0])).Op(eu.MCOPY)
	}
	m.Op(eu.MSIZE, eu.POP)
	progs = append(progs, m.Bytes())
	progs = append(progs, zeroLengthPrograms()...)
	return append(progs, wideLowPrograms()...)
}

// wideLowPrograms: for every operand the implementation narrows to 64 bits, a wide value whose low 64 bits
// are a perfectly valid small operand (2^64+x, 2^128+x, 2^255+x, 2^256-2^64+x).
func wideLowPrograms() [][]byte {
	var progs [][]byte
	max := wrap(new(big.Int).Sub(two256, one))
	wide := func(low int64) []*big.Int {
		l := big.NewInt(low)
		return []*big.Int{new(big.Int).Add(pow2(64), l), new(big.Int).Add(pow2(65), l), new(big.Int).Add(pow2(128), l),
			new(big.Int).Add(pow2(255), l), new(big.Int).Add(new(big.Int).Sub(two256, pow2(64)), l)}
	}
	// no fault expected: shifts, byte, signextend, reads beyond every source
	a := eu.NewAsm()
	a.Push(max.Bytes()).PushInt(0).Op(eu.MSTORE)
	for _, w := range wide(1) {
		for _, op := range []byte{eu.SHL, eu.SHR, eu.SAR, eu.BYTE, eu.SIGNEXTEND} {
			a.Push(max.Bytes()).Push(w.Bytes()).Op(op, eu.POP)
		}
		a.Push(w.Bytes()).Op(eu.CALLDATALOAD, eu.POP)
		a.PushInt(8).Push(w.Bytes()).PushInt(0).Op(eu.CALLDATACOPY)
		a.Push(max.Bytes()).PushInt(0).Op(eu.MSTORE)
		a.PushInt(8).Push(w.Bytes()).PushInt(0).Op(eu.CODECOPY)
		a.Push(max.Bytes()).PushInt(0).Op(eu.MSTORE)
	}
	progs = append(progs, a.Bytes())
	// a fault expected: the wide value is a memory offset / length, a return data offset, a jump destination
	for _, w := range wide(0) {
		for k := 0; k < 10; k++ {
			b := eu.NewAsm().Label("here") // offset 0 holds a genuine JUMPDEST: the low bits of w name it
			switch k {
			case 0:
				b.Push(w.Bytes()).Op(eu.MLOAD)
			case 1:
				b.PushInt(1).Push(w.Bytes()).Op(eu.MSTORE)
			case 2:
				b.PushInt(1).Push(w.Bytes()).Op(eu.MSTORE8)
			case 3:
				b.PushInt(1).Push(w.Bytes()).Op(eu.SHA3)
			case 4:
				b.PushInt(1).Push(w.Bytes()).Op(eu.RETURN)
			case 5:
				b.Push(new(big.Int).Add(w, one).Bytes()).PushInt(0).PushInt(0).Op(eu.CALLDATACOPY) // length 2^64+1
			case 6:
				b.PushInt(1).Push(w.Bytes()).PushInt(0).Op(eu.MCOPY)
			case 7:
				b.PushInt(0).Push(w.Bytes()).PushInt(0).Op(eu.RETURNDATACOPY)
			case 8:
				b.Push(w.Bytes()).Op(eu.JUMP)
			default:
				b.PushInt(1).Push(w.Bytes()).Op(eu.JUMPI)
			}
			b.Op(eu.STOP)
			progs = append(progs, b.Bytes())
		}
	}
	return progs
}

// zeroLengthPrograms: every instruction of the computational set with an (offset, length) operand
// pair, length 0 and offsets up to 2^256-1: a zero-length range is a no-op whatever the offset is
// (KECCAK256 yields the hash of the empty string, copies leave memory and its size alone,
// RETURN / REVERT return nothing).
func zeroLengthPrograms() [][]byte {
	var progs [][]byte
	max := wrap(new(big.Int).Sub(two256, one))
	offs := []*big.Int{big.NewInt(0), pow2(32), pow2(63), new(big.Int).Sub(pow2(64), one), pow2(64), pow2(255), max}
	a := eu.NewAsm()
	a.Push(max.Bytes()).PushInt(0).Op(eu.MSTORE) // some memory, so that MSIZE and the image are not trivially empty
	for _, o := range offs {
		a.PushInt(0).Push(o.Bytes()).Op(eu.SHA3, eu.POP, eu.MSIZE, eu.POP)
		for _, cp := range []byte{eu.CALLDATACOPY, eu.CODECOPY} {
			for _, src := range []*big.Int{big.NewInt(0), o} {
				a.PushInt(0).Push(src.Bytes()).Push(o.Bytes()).Op(cp, eu.MSIZE, eu.POP)
			}
		}
		a.PushInt(0).PushInt(0).Push(o.Bytes()).Op(eu.RETURNDATACOPY, eu.MSIZE, eu.POP)
		a.PushInt(0).Push(o.Bytes()).PushInt(0).Op(eu.MCOPY)
		a.PushInt(0).PushInt(0).Push(o.Bytes()).Op(eu.MCOPY)
		a.PushInt(0).Push(o.Bytes()).Push(o.Bytes()).Op(eu.MCOPY, eu.MSIZE, eu.POP)
	}
	progs = append(progs, a.Bytes())
	for _, o := range offs {
		for _, end := range []byte{eu.RETURN, eu.REVERT} {
			b := eu.NewAsm().Push(max.Bytes()).PushInt(0).Op(eu.MSTORE)
			b.PushInt(0).Push(o.Bytes()).Op(end)
			progs = append(progs, b.Bytes())
		}
	}
	return progs
}

// ------------------------------------------------------------------ vectors

var vecOps = map[string]int{"add": eu.ADD, "and": eu.AND, "byte": eu.BYTE, "div": eu.DIV, "eq": eu.EQ, "exp": eu.EXP,
	"gt": eu.GT, "lt": eu.LT, "mod": eu.MOD, "mul": eu.MUL, "or": eu.OR, "sar": eu.SAR, "sdiv": eu.SDIV, "sgt": eu.SGT,
	"shl": eu.SHL, "shr": eu.SHR, "signext": eu.SIGNEXTEND, "slt": eu.SLT, "smod": eu.SMOD, "sub": eu.SUB, "xor": eu.XOR}

type vec struct{ X, Y, Expected string }

func runVectors(dir string, r *rand.Rand, perFile int, shard, shards int, expHeavy int) {
	files, _ := filepath.Glob(filepath.Join(dir, "testcases_*.json"))
	sort.Strings(files)
	n := 0
	for _, f := range files {
		name := strings.TrimSuffix(strings.TrimPrefix(filepath.Base(f), "testcases_"), ".json")
		op, ok := vecOps[name]
		if !ok {
			vutil.Fatalf("unknown vector file %s", f)
		}
		raw, err := os.ReadFile(f)
		if err != nil {
			vutil.Fatalf("read %s: %v", f, err)
		}
		var vs []vec
		if err := json.Unmarshal(raw, &vs); err != nil {
			vutil.Fatalf("parse %s: %v", f, err)
		}
		idx := r.Perm(len(vs))
		if perFile > 0 && perFile < len(idx) {
			idx = idx[:perFile]
		}
		sort.Ints(idx)
		heavy := 0
		for _, i := range idx {
			n++
			if n%shards != shard {
				continue
			}
			x, _ := hex.DecodeString(vs[i].X)
			y, _ := hex.DecodeString(vs[i].Y)
			e, _ := hex.DecodeString(vs[i].Expected)
			if op == eu.EXP && len(strings.TrimLeft(vs[i].Y, "0")) > 4 {
				// exponent wider than 16 bits: hundreds of 256-bit products in TLC; rationed
				if heavy >= expHeavy {
					continue
				}
				heavy++
			}
			// the repository's test pushes x, then y, then applies the operation
			code := eu.NewAsm().PushN(32, x).PushN(32, y).Op(byte(op)).Bytes()
			runProgram("vector", code, nil)
			got := []int{}
			if len(rec.LastStack) == 1 {
				got = rec.LastStack[0]
			} else {
				got = []int{-1}
			}
			tr.Emit(map[string]interface{}{"event": "Vector", "run": runID, "op": op, "file": name, "index": i,
				"x": eu.BytesDigits(x), "y": eu.BytesDigits(y), "expected": eu.BytesDigits(e), "got": got, "depth": 1})
			stats["vectors"]++
		}
	}
}

// ------------------------------------------------------------------- script

// runTrees: TLC-generated call trees (factories that CREATE init codes, parents with sibling sub calls)
func runTrees(path string) {
	raw, err := os.ReadFile(path)
	if err != nil {
		vutil.Fatalf("read trees: %v", err)
	}
	var ts []tree
	if err := json.Unmarshal(raw, &ts); err != nil {
		vutil.Fatalf("parse trees: %v", err)
	}
	for _, t := range ts {
		extra, progGas = t.Others, 30000000
		runProgram("tree-"+t.Fam, toBytes(t.Code), nil)
		extra, progGas = nil, gasLimit
		stats["tree_programs"]++
	}
}

func runScript(path string) {
	raw, err := os.ReadFile(path)
	if err != nil {
		vutil.Fatalf("read script: %v", err)
	}
	var progs []tlcProg
	if err := json.Unmarshal(raw, &progs); err != nil {
		vutil.Fatalf("parse script: %v", err)
	}
	for _, p := range progs {
		skipSteps = p.Skip
		status, ret := runProgram("tlc", toBytes(p.Code), toBytes(p.Data))
		skipSteps = 0
		obs := status
		if status == "ok" {
			// tell STOP from RETURN the way the reference does: by the halting instruction
			obs = "ok"
		}
		mem := rec.LastMem
		tr.Emit(map[string]interface{}{"event": "Final", "run": runID, "depth": 1,
			"exp": map[string]interface{}{"status": p.Status, "stack": nz(p.Stack), "mem": nzi(p.Mem), "ret": nzi(p.Ret)},
			"obs": map[string]interface{}{"status": obsStatus(obs, p.Status), "stack": nz(rec.LastStack), "mem": eu.ByteInts(mem), "ret": eu.ByteInts(ret)}})
		stats["tlc_programs"]++
	}
}

// obsStatus names the observed end in the reference's vocabulary: a call that
// returned without error is "stop" or "return" (the interpreter does not say
// which; both leave the same observable result apart from the returned bytes,
// which are compared separately).
func obsStatus(obs, exp string) string {
	if obs == "ok" {
		if exp == "stop" || exp == "return" {
			return exp
		}
		return "ok"
	}
	return obs
}

func nz(a [][]int) [][]int {
	if a == nil {
		return [][]int{}
	}
	for i := range a {
		if a[i] == nil {
			a[i] = []int{}
		}
	}
	return a
}
func nzi(a []int) []int {
	if a == nil {
		return []int{}
	}
	return a
}

func main() {
	out := flag.String("out", "trace.ndjson", "ndjson trace")
	scratch := flag.String("scratch", "", "scratch directory for the node's stores")
	nprog := flag.Int("programs", 0, "generated programs")
	nsnip := flag.Int("snippets", 12, "snippets per generated program")
	salt := flag.Int64("salt", 0, "seed salt")
	script := flag.String("script", "", "TLC-generated programs (json)")
	trees := flag.String("trees", "", "TLC-generated call trees (json)")
	vectors := flag.String("vectors", "", "directory of testcases_*.json")
	perFile := flag.Int("vecperfile", 0, "vectors per file (0 = all)")
	shard := flag.Int("shard", 0, "vector shard")
	shards := flag.Int("shards", 1, "vector shards")
	matrix := flag.String("matrix", "", "boundary operand matrix: quick | full")
	expBudget := flag.Int("exp", 2, "EXP instructions with a wide exponent in the whole trace")
	h := flag.Uint64("height", 100, "block height (selects the jump table)")
	flag.Parse()
	height = *h
	eu.Boot(*scratch)
	tr = vutil.NewTrace(*out)
	// no generated program needs more than a few hundred steps under the reference semantics
	rec = eu.NewRecorder(tr, eu.Options{Values: true, MaxSteps: 1500, StepBound: true, MaxFaults: 8, HardSteps: 200000, Frames: true,
		MaxFrames: 64, EnterExtra: func(f *vm.VerifFrame) map[string]interface{} {
			return map[string]interface{}{"code": eu.ByteInts(f.Code), "data": eu.ByteInts(f.Input)}
		}})
	rec.Install()
	r := vutil.Rng(*salt)
	if *script != "" {
		runScript(*script)
	}
	if *trees != "" {
		runTrees(*trees)
	}
	if *vectors != "" {
		runVectors(*vectors, r, *perFile, *shard, *shards, *expBudget)
	}
	if *matrix != "" {
		for i, code := range matrixPrograms(*matrix == "full") {
			if i%*shards == *shard {
				runProgram("matrix", code, matrixData)
				stats["matrix_programs"]++
			}
		}
	}
	exp := *expBudget
	for i := 0; i < *nprog; i++ {
		code, data := genProgram(r, *nsnip, &exp)
		runProgram("gen", code, data)
	}
	tr.Close()
	ops := make([]string, 0)
	for o, c := range rec.OpCount {
		ops = append(ops, fmt.Sprintf("%d:%d", o, c))
	}
	sort.Strings(ops)
	faults := make([]string, 0)
	for c, n := range rec.FaultCount {
		faults = append(faults, fmt.Sprintf("%s:%d", c, n))
	}
	sort.Strings(faults)
	fmt.Printf("c10: programs=%d steps=%d events=%d vectors=%d tlc_programs=%d matrix_programs=%d truncated_runs=%d tree_programs=%d\n", stats["programs"], stats["steps"], tr.N,
		stats["vectors"], stats["tlc_programs"], stats["matrix_programs"], stats["truncated_runs"], stats["tree_programs"])
	fmt.Printf("OPS %s\n", strings.Join(ops, " "))
	fmt.Printf("FAULTS %s\n", strings.Join(faults, " "))
}

func min(a, b int) int {
	if a < b {
		return a
	}
	return b
}

func max(a, b int) int {
	if a > b {
		return a
	}
	return b
}
