// c13 runs the node's own distributed key generation (hook H3 over
// groupInitContext / groupNodeInfo) and the real signing / recovery code on
// TLC-generated cases (group size, responding subset, arrival order) plus
// seeded random ones, and records one ndjson event per call for
// spec/ThresholdTrace.tla.
//
// Secrets and curve points stay on this side: the trace carries return codes,
// counts, verdicts of the real VerifySig and equality classes of byte strings.
package main

import (
	"bytes"
	"encoding/json"
	"flag"
	"fmt"
	"math/rand"
	"os"
	"path/filepath"
	"sort"
	"strconv"
	"strings"
	"sync"

	"com.tuntun.rangers/node/src/consensus/groupsig"
	"com.tuntun.rangers/node/src/consensus/logical"
	"com.tuntun.rangers/node/src/consensus/logical/group_create"
	"com.tuntun.rangers/node/src/consensus/model"
	"com.tuntun.rangers/node/src/middleware/types"
	"verif/harness/internal/cryptoutil"
	"verif/harness/internal/vutil"
)

type tcase struct {
	N      int   `json:"n"`
	K      int   `json:"k"` // the model's K(n); informational, the driver uses the node's
	Subset []int `json:"subset"`
	Order  []int `json:"order"`
}

var tr *vutil.Trace

func emit(ev string, kv map[string]interface{}) {
	kv["event"] = ev
	tr.Emit(kv)
}

// recoverDirect calls groupsig.RecoverGroupSignature, turning a panic of the
// code under test into an observation.
func recoverDirect(m map[string]groupsig.Signature, k int) (sig *groupsig.Signature, panicked bool) {
	defer func() {
		if r := recover(); r != nil {
			sig, panicked = nil, true
		}
	}()
	return groupsig.RecoverGroupSignature(m, k), false
}

func runCase(g *cryptoutil.Group, c tcase, idx int, reps int, counts map[string]int) {
	n := g.N
	k := model.Param.GetGroupK(n)
	msg := cryptoutil.HashOf("c13-msg", idx).Bytes()
	gpk := g.GPK[0]
	classes := &cryptoutil.Classes{}
	// class 1 is, by construction, whatever is recovered first; uniqueness is
	// judged by the monitor as "every recovery is class 1" and validity by the
	// real VerifySig under the group public key.
	emit("CaseStart", map[string]interface{}{"n": n, "k": k, "path": "generator", "subset": c.Subset, "order": c.Order})
	gen := model.NewGroupSignGenerator(k)
	for _, j := range c.Order {
		sig := groupsig.Sign(g.SignSK[j-1], msg)
		added, generated := gen.AddWitnessSign(g.IDs[j-1], sig)
		emit("Arrive", map[string]interface{}{"j": j, "added": added, "generated": generated, "count": gen.WitnessCount()})
		counts["arrive"]++
	}
	rec := gen.GetGroupSign()
	emit("Recovered", map[string]interface{}{
		"path": "generator", "idStyle": curStyle, "n": n, "m": len(c.Order), "generated": gen.SignRecovered(), "panicked": false,
		"sigClass": classes.Of(rec.Serialize()), "verifies": groupsig.VerifySig(gpk, msg, rec)})
	counts["recovered"]++
	if len(c.Order) < k {
		counts["below"]++
		return
	}
	// the whole responding set handed to RecoverGroupSignature at once (it picks
	// a random k-subset and iterates a Go map)
	all := map[string]groupsig.Signature{}
	for _, j := range c.Order {
		all[g.IDs[j-1].GetHexString()] = groupsig.Sign(g.SignSK[j-1], msg)
	}
	for r := 0; r < reps; r++ {
		cp := map[string]groupsig.Signature{}
		for kk, v := range all {
			cp[kk] = v
		}
		sig, panicked := recoverDirect(cp, k)
		ev := map[string]interface{}{"path": "direct", "idStyle": curStyle, "n": n, "m": len(c.Order), "generated": sig != nil, "panicked": panicked,
			"sigClass": 0, "verifies": false}
		if sig != nil {
			ev["sigClass"] = classes.Of(sig.Serialize())
			ev["verifies"] = groupsig.VerifySig(gpk, msg, *sig)
		}
		emit("Recovered", ev)
		counts["recovered"]++
		if len(c.Order) > k {
			counts["superset"]++
		}
	}
}

// concurrentRecover: goroutines sign, combine and verify for different messages of one group at the same
// time; each compares with the group signature it recovered alone beforehand.
func concurrentRecover(g *cryptoutil.Group, workers, iterations int) {
	k := model.Param.GetGroupK(g.N)
	type job struct {
		msg []byte
		ref []byte
	}
	shares := func(msg []byte) map[string]groupsig.Signature {
		m := map[string]groupsig.Signature{}
		for j := 0; j < k; j++ {
			m[g.IDs[j].GetHexString()] = groupsig.Sign(g.SignSK[j], msg)
		}
		return m
	}
	jobs := make([]job, workers)
	for i := range jobs {
		jobs[i].msg = make([]byte, 32+1000*(i%3))
		copy(jobs[i].msg, cryptoutil.HashOf("c13-conc", i).Bytes())
		sig, panicked := recoverDirect(shares(jobs[i].msg), k)
		if panicked || sig == nil || !groupsig.VerifySig(g.GPK[0], jobs[i].msg, *sig) {
			// the group itself is broken (already judged by the recoveries above): nothing to compare with
			emit("ConcurrentRecover", map[string]interface{}{"n": g.N, "goroutines": 0, "iterations": 0, "mismatches": 0, "verifyFailures": 1})
			return
		}
		jobs[i].ref = sig.Serialize()
	}
	mism, fail := make([]int, workers), make([]int, workers)
	var wg sync.WaitGroup
	for i := range jobs {
		wg.Add(1)
		go func(i int) {
			defer wg.Done()
			for it := 0; it < iterations; it++ {
				sig, panicked := recoverDirect(shares(jobs[i].msg), k)
				if panicked || sig == nil {
					fail[i]++
					continue
				}
				if !bytes.Equal(sig.Serialize(), jobs[i].ref) {
					mism[i]++
				}
				if !groupsig.VerifySig(g.GPK[0], jobs[i].msg, *sig) {
					fail[i]++
				}
			}
		}(i)
	}
	wg.Wait()
	mm, ff := 0, 0
	for i := range jobs {
		mm, ff = mm+mism[i], ff+fail[i]
	}
	emit("ConcurrentRecover", map[string]interface{}{"n": g.N, "goroutines": workers, "iterations": iterations, "mismatches": mm, "verifyFailures": ff})
}

// concurrentDKG: several groups are created in ONE process at the same time (a miner takes part in several
// key generations at once), and inside each group the dealers deal at the same time. Afterwards every group
// is judged alone by the clauses of a sequential key generation: one group key (the sum of the dealers'
// public seeds), and the first and the last threshold members recover the same signature, valid under it
// (pieces that do not lie on one polynomial give subsets that disagree). A panic is an outcome.
func concurrentDKG(seed int64, goroutines, rounds int, sizes []int) {
	type res struct {
		g        *cryptoutil.Group
		panicked string
		err      string
	}
	total := goroutines * rounds
	results := make([]res, total)
	var wg sync.WaitGroup
	for w := 0; w < goroutines; w++ {
		wg.Add(1)
		go func(w int) {
			defer wg.Done()
			rng := rand.New(rand.NewSource(seed*1000 + int64(w)))
			for r := 0; r < rounds; r++ {
				slot := w*rounds + r
				func() {
					defer func() {
						if x := recover(); x != nil {
							results[slot].panicked = fmt.Sprint(x)
						}
					}()
					n := sizes[(w+r)%len(sizes)]
					g, err := cryptoutil.RunDKGOpts(rng, n, fmt.Sprintf("c13-concdkg-%d-%d", w, r), cryptoutil.Opts{ConcurrentDeal: true})
					if pe, ok := err.(*cryptoutil.PanicError); ok {
						results[slot].panicked = pe.What
					} else if err != nil {
						results[slot].err = err.Error()
					}
					results[slot].g = g
				}()
			}
		}(w)
	}
	wg.Wait()
	panics, errs, gpkDisagree, sumMismatch, verifyFailures, mismatches := 0, 0, 0, 0, 0, 0
	first := ""
	for i, r := range results {
		if r.panicked != "" {
			panics++
			if first == "" {
				first = r.panicked
			}
			continue
		}
		if r.err != "" || r.g == nil {
			errs++
			continue
		}
		g := r.g
		agree := true
		for j := 1; j < g.N; j++ {
			agree = agree && g.GPK[j].IsEqual(g.GPK[0])
		}
		if !agree {
			gpkDisagree++
		}
		if sum := groupsig.AggregatePubkeys(g.SeedPK); sum == nil || !sum.IsEqual(g.GPK[0]) {
			sumMismatch++
		}
		k := model.Param.GetGroupK(g.N)
		msg := cryptoutil.HashOf("c13-concdkg", i).Bytes()
		var sigs [][]byte
		for _, lo := range []int{0, g.N - k} {
			m := map[string]groupsig.Signature{}
			for j := lo; j < lo+k; j++ {
				m[g.IDs[j].GetHexString()] = groupsig.Sign(g.SignSK[j], msg)
			}
			sig, panicked := recoverDirect(m, k)
			if panicked || sig == nil || !groupsig.VerifySig(g.GPK[0], msg, *sig) {
				verifyFailures++
				continue
			}
			sigs = append(sigs, sig.Serialize())
		}
		if len(sigs) == 2 && !bytes.Equal(sigs[0], sigs[1]) {
			mismatches++
		}
	}
	if len(first) > 200 {
		first = first[:200]
	}
	emit("ConcurrentDkg", map[string]interface{}{"goroutines": goroutines, "groups": total, "panics": panics, "firstPanic": first,
		"errors": errs, "gpkDisagree": gpkDisagree, "gpkNotSumOfDealerPubs": sumMismatch,
		"verifyFailures": verifyFailures, "mismatches": mismatches})
}

// curStyle is the id style of the group the current recoveries belong to (part of the Recovered events).
var curStyle = "random"

// dkg runs the node's DKG for one group and logs it.
func dkg(rng *rand.Rand, n int, tag string, o cryptoutil.Opts, counts map[string]int) *cryptoutil.Group {
	g, err := cryptoutil.RunDKGOpts(rng, n, tag, o)
	if err != nil {
		vutil.Fatalf("dkg: %v", err)
	}
	curStyle = o.IDStyle
	if curStyle == "" {
		curStyle = "random"
	}
	emit("DkgStart", map[string]interface{}{"n": n, "k": g.K, "idStyle": curStyle})
	for _, d := range g.Deliveries {
		emit("Deliver", map[string]interface{}{"to": d.To, "from": d.From, "rc": d.Rc, "dup": d.Dup,
			"count": d.Count, "ready": d.Ready})
		counts["deliver"]++
		if d.Dup {
			counts["dupDeliver"]++
		}
	}
	for _, r := range g.Redeals {
		emit("Redeal", map[string]interface{}{"dealer": r.Dealer, "after": r.After, "samePieces": r.SamePieces, "sameSeedPk": r.SameSeedPK})
		counts["redeal"]++
	}
	// what the real nodes hold after the exchange
	cl := &cryptoutil.Classes{}
	gpkClass := make([]int, n)
	shareOk := make([]bool, n)
	msg0 := cryptoutil.HashOf("c13-share", n).Bytes()
	for j := 0; j < n; j++ {
		gpkClass[j] = cl.Of(g.GPK[j].Serialize())
		shareOk[j] = g.SignSK[j].IsValid() && groupsig.VerifySig(g.SignPK[j], msg0, groupsig.Sign(g.SignSK[j], msg0))
	}
	sum := groupsig.AggregatePubkeys(g.SeedPK)
	emit("DkgEnd", map[string]interface{}{"n": n, "idStyle": curStyle, "gpkClass": gpkClass,
		"gpkIsSumOfDealerPubs": sum != nil && sum.IsEqual(g.GPK[0]), "shareOk": shareOk})
	counts["dkg"]++
	return g
}

// structured: several groups in ONE process whose member ids share structure -- the same 2-byte head and
// 3-byte tail member by member with different middles, small integers shifted left by different amounts,
// two ids congruent modulo the group order, an id that is the group order -- each with the same
// responding subsets one after the other: a recovery must not depend on what was recovered before.
func structured(rng *rand.Rand, sizes []int, reps int, counts map[string]int, idx *int) {
	for _, n := range sizes {
		k := model.Param.GetGroupK(n)
		first, last := tcase{N: n}, tcase{N: n}
		for j := 1; j <= k; j++ {
			first.Subset, first.Order = append(first.Subset, j), append(first.Order, j)
			last.Subset, last.Order = append(last.Subset, n-k+j), append([]int{n - k + j}, last.Order...)
		}
		for gi, o := range []cryptoutil.Opts{
			{IDStyle: "tagged"}, {IDStyle: "tagged", Redealers: 1}, {IDStyle: "tagged"},
			{IDStyle: "shifted", Shift: 5}, {IDStyle: "shifted", Shift: 9}, {IDStyle: "shifted", Shift: 20},
			{IDStyle: "congruent"}, {IDStyle: "zeroModOrder"},
		} {
			g := dkg(rng, n, fmt.Sprintf("c13-structured-%d-%d", n, gi), o, counts)
			if o.IDStyle == "congruent" || o.IDStyle == "zeroModOrder" {
				emit("IdFacts", map[string]interface{}{"idStyle": o.IDStyle,
					"sharesOfMembers1And2Equal": g.SignSK[0].IsEqual(g.SignSK[1]),
					"member1HoldsGroupSecret":   groupsig.GeneratePubkey(g.SignSK[0]).IsEqual(g.GPK[0])})
			}
			for _, c := range []tcase{first, last} {
				*idx++
				runCase(g, c, *idx, reps, counts)
				counts["cases"]++
				counts["structuredCases"]++
			}
		}
	}
	curStyle = "random"
}

func main() {
	out := flag.String("out", "trace.ndjson", "trace file")
	script := flag.String("script", "", "JSON file: list of TLC-generated cases")
	scratch := flag.String("scratch", "", "scratch directory")
	salt := flag.Int64("salt", 0, "shard number")
	nRandom := flag.Int("random", 0, "seeded random cases per group")
	reps := flag.Int("reps", 2, "direct recoveries per case")
	ksweep := flag.Int("ksweep", 0, "emit, for n = 1..ksweep, the threshold the signing side uses (GetGroupK) and the one the DKG deals with")
	structuredSizes := flag.String("structured", "", "comma separated group sizes for the groups with structured member ids")
	big := flag.String("big", "", "comma separated group sizes for one DKG + one recovery each (sizes beyond the default maximum)")
	concDkg := flag.String("concdkg", "", "goroutines,rounds: that many key generations at the same time in this process, that many times")
	flag.Parse()
	if *scratch == "" {
		vutil.Fatalf("--scratch required")
	}
	outAbs, _ := filepath.Abs(*out)
	var cases []tcase
	if *script != "" {
		b, err := os.ReadFile(*script)
		if err != nil {
			vutil.Fatalf("read script: %v", err)
		}
		if err := json.Unmarshal(b, &cases); err != nil {
			vutil.Fatalf("parse script: %v", err)
		}
	}
	vutil.BootServices(*scratch)
	logical.InitConsensus()
	tr = vutil.NewTrace(outAbs)
	rng := vutil.Rng(13 + 1000**salt)
	counts := map[string]int{}

	if *ksweep > 0 {
		// the two places a threshold is derived: model.Param.GetGroupK (round 1, GroupSignGenerator,
		// group creation context) and the DKG node's own threshold() (degree + 1 of the dealt polynomial)
		ids := make([]groupsig.ID, *ksweep)
		for i := range ids {
			ids[i] = cryptoutil.NewMiner(rng, 0).ID
		}
		mi := cryptoutil.NewMiner(rng, 0)
		for n := 1; n <= *ksweep; n++ {
			gh := &types.GroupHeader{Extends: fmt.Sprintf("ksweep-%d", n)}
			gh.Hash = gh.GenHash()
			node := group_create.VerifNewDKGNode(mi, &model.GroupInitInfo{GroupHeader: gh, GroupMembers: ids[:n]})
			if node == nil {
				vutil.Fatalf("cannot build a DKG node for %d members", n)
			}
			emit("K", map[string]interface{}{"n": n, "k": model.Param.GetGroupK(n), "dkgK": node.Threshold()})
			counts["k"]++
		}
	}
	bigSizes := []int{}
	for _, f := range strings.Split(*big, ",") {
		if f == "" {
			continue
		}
		n, err := strconv.Atoi(f)
		if err != nil {
			vutil.Fatalf("--big: %v", err)
		}
		bigSizes = append(bigSizes, n)
	}
	byN := map[int][]tcase{}
	for _, c := range cases {
		byN[c.N] = append(byN[c.N], c)
	}
	var ns []int
	for n := range byN {
		ns = append(ns, n)
	}
	for _, n := range bigSizes {
		k := model.Param.GetGroupK(n)
		c := tcase{N: n, K: k}
		for j := 1; j <= k; j++ {
			c.Subset = append(c.Subset, j)
			c.Order = append(c.Order, j)
		}
		byN[n] = append(byN[n], c)
		ns = append(ns, n)
		counts["big"]++
	}
	sort.Ints(ns)
	idx := 0
	for _, n := range ns {
		// every second group has a dealer whose context is rebuilt in the middle of the exchange
		g := dkg(rng, n, fmt.Sprintf("c13-%d-%d", *salt, n), cryptoutil.Opts{Redealers: n % 2}, counts)
		list := byN[n]
		// seeded random cases: random subsets (also one below the threshold) in random order
		k := model.Param.GetGroupK(n)
		for r := 0; r < *nRandom && n <= 16; r++ {
			m := k + rng.Intn(n-k+1)
			if r == 0 && k > 1 {
				m = k - 1
			}
			perm := rng.Perm(n)[:m]
			c := tcase{N: n}
			for _, p := range perm {
				c.Order = append(c.Order, p+1)
			}
			c.Subset = append([]int(nil), c.Order...)
			sort.Ints(c.Subset)
			list = append(list, c)
		}
		for _, c := range list {
			idx++
			runCase(g, c, idx, *reps, counts)
			counts["cases"]++
		}
		if n <= 16 {
			concurrentRecover(g, 8, 6)
			counts["concurrent"]++
		}
	}
	if *structuredSizes != "" {
		var sizes []int
		for _, f := range strings.Split(*structuredSizes, ",") {
			n, err := strconv.Atoi(f)
			if err != nil {
				vutil.Fatalf("--structured: %v", err)
			}
			sizes = append(sizes, n)
		}
		structured(rng, sizes, *reps, counts, &idx)
	}
	if *concDkg != "" {
		var gor, rounds int
		if _, err := fmt.Sscanf(*concDkg, "%d,%d", &gor, &rounds); err != nil {
			vutil.Fatalf("--concdkg: %v", err)
		}
		concurrentDKG(vutil.Seed()+*salt, gor, rounds, []int{5, 7, 9, 4})
		counts["concurrentDkg"] += gor * rounds
	}
	tr.Close()
	fmt.Printf("c13: concurrentDkg=%d redeal=%d structuredCases=%d cases=%d dkg=%d deliver=%d dupDeliver=%d arrive=%d recovered=%d superset=%d below=%d k=%d big=%d concurrent=%d events=%d\n",
		counts["concurrentDkg"], counts["redeal"], counts["structuredCases"], counts["cases"], counts["dkg"], counts["deliver"], counts["dupDeliver"], counts["arrive"], counts["recovered"],
		counts["superset"], counts["below"], counts["k"], counts["big"], counts["concurrent"], tr.N)
}
