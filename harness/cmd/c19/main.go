// c19 drives the real core.groupChain with add / remove-last / restart
// histories and records, after every call, the complete projection of the real
// stores as one ndjson event for spec/GroupChainTrace.tla.
//
// Histories come from two sources: a script file of TLC-generated behaviours of
// spec/GroupChain.tla (direction model -> code) and a seeded random walker.
package main

import (
	"bytes"
	"crypto/sha256"
	"encoding/json"
	"flag"
	"fmt"
	"os"
	"path/filepath"
	"runtime/pprof"
	"strings"
	"sync"
	"time"

	"com.tuntun.rangers/node/src/core"
	"com.tuntun.rangers/node/src/middleware/db"
	"com.tuntun.rangers/node/src/middleware/log"
	"com.tuntun.rangers/node/src/middleware/mysql"
	"com.tuntun.rangers/node/src/middleware/types"
	"verif/harness/internal/vutil"
)

const (
	none     = 99
	maxCount = 6 // must match MaxCount in GroupChainTrace.cfg
	nIds     = 5 // ids 1..nIds, must match Ids
)

type op struct {
	Ids  []int  `json:"ids,omitempty"`  // Fork: ids of the fork's groups
	Pres []int  `json:"pres,omitempty"` // Fork: the predecessor each of them names (98 or absent: the one before it)
	Op   string `json:"op"`             // Add | Remove | Restart | Fork (G = common ancestor)
	G    int    `json:"g,omitempty"`    // id index for Add
	Pre  int    `json:"pre,omitempty"`  // claimed predecessor (98: the current last)
	// Conc: AddGroup(G, Pre) overlaps with B (an add or a removal); First = whose locked section runs first
	B     *opB   `json:"b,omitempty"`
	First string `json:"first,omitempty"`
	J     int    `json:"j,omitempty"` // ConcFork: fork groups added before the overlapping add's locked section
}

type opB struct {
	Op  string `json:"op"`
	G   int    `json:"g"`
	Pre int    `json:"pre"`
}

// concurrent runs AddGroup(a) so that it overlaps with b: both calls pass their unlocked id check
// and wait inside consensusHelper.CheckGroup (parked by the stub) before the first of them takes
// the chain lock. A removal (removeFromCommonAncestor down to the predecessor of the last group)
// has no unlocked part: "first = b" runs it while a is parked.
func concurrent(o op) (okA, okB bool) {
	gc := core.GetGroupChain()
	ga := mkGroup(o.G, idOf(o.Pre))
	var gb *types.Group
	if o.B.Op == "Add" {
		gb = mkGroup(o.B.G, idOf(o.B.Pre))
	}
	gate := map[*types.Group]chan struct{}{ga: make(chan struct{})}
	if gb != nil {
		gate[gb] = make(chan struct{})
	}
	reached := make(chan *types.Group, 2)
	helper.CheckGroupFn = func(g *types.Group) (bool, error) {
		if ch, ok := gate[g]; ok {
			reached <- g
			<-ch
		}
		return true, nil
	}
	defer func() { helper.CheckGroupFn = nil }()
	type call struct {
		g      *types.Group
		res    chan error
		parked bool
		done   bool
		err    error
	}
	start := func(g *types.Group) *call {
		c := &call{g: g, res: make(chan error, 1)}
		go func() { c.res <- gc.AddGroup(g) }()
		select {
		case <-reached:
			c.parked = true
		case c.err = <-c.res: // refused by the unlocked id check
			c.done = true
		case <-time.After(20 * time.Second):
			vutil.Fatalf("AddGroup neither parked nor returned")
		}
		return c
	}
	finish := func(c *call) bool {
		if !c.done {
			close(gate[c.g])
			select {
			case c.err = <-c.res:
				c.done = true
			case <-time.After(20 * time.Second):
				vutil.Fatalf("AddGroup did not return")
			}
		}
		return c.err == nil
	}
	ca := start(ga)
	if gb != nil {
		cb := start(gb)
		if o.First == "a" {
			okA = finish(ca)
			okB = finish(cb)
		} else {
			okB = finish(cb)
			okA = finish(ca)
		}
		return
	}
	remove := func() bool {
		if bytes.Equal(gc.LastGroup().Id, genesis.Id) {
			return false
		}
		return core.VerifRemoveLastGroup()
	}
	if o.First == "a" {
		okA = finish(ca)
		okB = remove()
	} else {
		okB = remove()
		okA = finish(ca)
	}
	return
}

var (
	helper  = &vutil.StubHelper{}
	genesis *types.Group
	idBytes = map[int][]byte{}
)

func idOf(i int) []byte {
	if i == 0 {
		return genesis.Id
	}
	if b, ok := idBytes[i]; ok {
		return b
	}
	h := sha256.Sum256([]byte(fmt.Sprintf("verif-group-%d", i)))
	idBytes[i] = h[:]
	return h[:]
}

func indexOf(id []byte) int {
	if id == nil {
		return none
	}
	if bytes.Equal(id, genesis.Id) {
		return 0
	}
	for i := 1; i <= nIds; i++ {
		if bytes.Equal(id, idOf(i)) {
			return i
		}
	}
	return 98 // an id outside the universe: never equal to anything expected
}

func project() map[string]interface{} {
	gc := core.GetGroupChain()
	st := map[string]interface{}{}
	st["count"] = int(gc.Count())
	lastIdx := none
	if lg := gc.LastGroup(); lg != nil {
		lastIdx = indexOf(lg.Id)
	}
	st["last"] = lastIdx
	st["lastApi"] = lastIdx
	// store: by-id lookup of every id of the universe
	store := make([]map[string]interface{}, 0, nIds+1)
	for i := 0; i <= nIds; i++ {
		g := gc.GetGroupById(idOf(i))
		if g == nil {
			store = append(store, map[string]interface{}{"pre": none, "height": 0, "present": false})
			continue
		}
		pre := none
		if i != 0 {
			pre = indexOf(g.Header.PreGroup)
		}
		store = append(store, map[string]interface{}{"pre": pre, "height": int(g.GroupHeight), "present": true})
	}
	st["store"] = store
	// raw height index (hook H4) and the API's answer, heights 0..maxCount+4
	hidx := make([]int, 0)
	byH := make([]int, 0)
	for h := 0; h <= maxCount+4; h++ {
		hidx = append(hidx, indexOf(core.VerifGroupRawIndex(uint64(h))))
		g := gc.GetGroupByHeight(uint64(h))
		if g == nil {
			byH = append(byH, none)
		} else {
			byH = append(byH, indexOf(g.Id))
		}
	}
	st["hidx"] = hidx
	st["byHeight"] = byH
	// list: iterator from the last group back to genesis
	list := make([]int, 0)
	it := gc.Iterator()
	for g := it.Current(); g != nil && len(list) <= nIds+2; g = it.MovePre() {
		list = append(list, indexOf(g.Id))
		if bytes.Equal(g.Id, genesis.Id) {
			break
		}
	}
	st["list"] = list
	// GetSyncGroupsById(x) must be the groups that follow x on the list (at most 5)
	syncOk := true
	for k := len(list) - 1; k >= 0; k-- {
		got := gc.GetSyncGroupsById(idOf(list[k]))
		want := make([]int, 0)
		for j := k - 1; j >= 0 && len(want) < 5; j-- {
			want = append(want, list[j])
		}
		if len(got) != len(want) {
			syncOk = false
			break
		}
		for j := range got {
			if got[j] == nil || indexOf(got[j].Id) != want[j] {
				syncOk = false
			}
		}
	}
	st["syncOk"] = syncOk
	return st
}

// concurrentLookups: several goroutines look groups up by height and by id at the same time (no
// writer); every answer must be the one a single goroutine got just before.
func concurrentLookups() (lookups int, mismatches int, sample string) {
	gc := core.GetGroupChain()
	n := maxCount + 4
	ref := make([]int, n)
	for h := 0; h < n; h++ {
		ref[h] = none
		if g := gc.GetGroupByHeight(uint64(h)); g != nil {
			ref[h] = indexOf(g.Id)
		}
	}
	var mu sync.Mutex
	var wg sync.WaitGroup
	for w := 0; w < 6; w++ {
		wg.Add(1)
		go func(w int) {
			defer wg.Done()
			bad, cnt, first := 0, 0, ""
			for it := 0; it < 60; it++ {
				for k := 0; k < n; k++ {
					h := (k*7 + w*3 + it) % n
					got := none
					if g := gc.GetGroupByHeight(uint64(h)); g != nil {
						got = indexOf(g.Id)
					}
					cnt++
					if got != ref[h] {
						bad++
						if first == "" {
							first = fmt.Sprintf("height %d: %d instead of %d", h, got, ref[h])
						}
					}
					if ref[h] != none {
						cnt++
						if g := gc.GetGroupById(idOf(ref[h])); g == nil || indexOf(g.Id) != ref[h] {
							bad++
						}
					}
				}
			}
			mu.Lock()
			lookups += cnt
			mismatches += bad
			if sample == "" {
				sample = first
			}
			mu.Unlock()
		}(w)
	}
	wg.Wait()
	return
}

func presOf(o op) []int {
	out := make([]int, len(o.Ids))
	for k := range out {
		out[k] = 98
		if k < len(o.Pres) {
			out[k] = o.Pres[k]
		}
	}
	return out
}

func mkGroup(i int, pre []byte) *types.Group {
	h := &types.GroupHeader{Parent: genesis.Id, PreGroup: pre, CreateHeight: uint64(10 * i)}
	h.Hash = h.GenHash()
	// the height a delivered group CLAIMS (a wire field outside the group hash): never the one it gets
	return &types.Group{Header: h, Id: idOf(i), PubKey: []byte{byte(i)}, Members: [][]byte{{1}, {2}, {3}},
		GroupHeight: uint64(1 + (i*7)%5)}
}

func fresh(root string, n int) {
	core.VerifCloseGroupChain()
	vutil.FreshStores(filepath.Join(root, fmt.Sprintf("h%06d", n)))
	core.VerifInitGroupChain(helper)
	genesis = core.GetGroupChain().GetGroupByHeight(0)
	if genesis == nil || core.GetGroupChain().Count() != 1 {
		vutil.Fatalf("unexpected genesis group chain (count=%d)", core.GetGroupChain().Count())
	}
}

// runOp makes one call of a history on the real group chain and returns its trace event (without
// the projection); skipped = the call would leave the model's bounds.
func runOp(o op) (ev map[string]interface{}, skipped bool) {
	gc := core.GetGroupChain()
	switch o.Op {
	case "Add":
		if int(gc.Count()) >= maxCount {
			return nil, true // stay inside the model's bound
		}
		pre := o.Pre
		if pre == 98 {
			pre = indexOf(gc.LastGroup().Id)
		}
		ev = map[string]interface{}{"event": "Add", "g": o.G, "pre": pre}
		err := gc.AddGroup(mkGroup(o.G, idOf(pre)))
		ev["ok"] = err == nil
	case "Remove":
		ev = map[string]interface{}{"event": "Remove", "ok": false}
		if !bytes.Equal(gc.LastGroup().Id, genesis.Id) {
			ev["ok"] = core.VerifRemoveLastGroup()
		}
	case "Fork":
		ev = map[string]interface{}{"event": "Fork", "g": o.G, "ids": o.Ids, "pres": presOf(o), "ok": false}
		anc := gc.GetGroupById(idOf(o.G))
		if anc != nil && int(gc.Count())+len(o.Ids) <= maxCount+2 {
			branch := []*types.Group{}
			pre := anc.Id
			for k, i := range o.Ids {
				if k < len(o.Pres) && o.Pres[k] != 98 {
					pre = idOf(o.Pres[k])
				}
				g := mkGroup(i, pre)
				branch = append(branch, g)
				pre = g.Id
			}
			ev["ok"] = core.VerifGroupForkSwitch(anc, branch)
		}
	case "Conc":
		if int(gc.Count()) >= maxCount-1 {
			return nil, true
		}
		ev = map[string]interface{}{"event": "Conc", "g": o.G, "pre": o.Pre, "b": o.B, "first": o.First}
		okA, okB := concurrent(o)
		ev["okA"], ev["okB"] = okA, okB
	case "ConcFork":
		ev = concFork(o)
	case "Restart":
		core.VerifCloseGroupChain()
		core.VerifInitGroupChain(helper)
		ev = map[string]interface{}{"event": "Restart"}
	default:
		vutil.Fatalf("unknown op %q", o.Op)
	}
	return ev, false
}

// concFork runs a group fork switch and, when the switch removes at least two groups, holds it
// right after its first removal (the switch logs every removal; hook export VerifWrapSyncLogger) while another goroutine calls AddGroup(B.G) naming the group that is the last one at that moment.
// Mode "lock" (First = "lock"): the call goes on to chain.lock right away; removeFromCommonAncestor
// holds it over all removals, so the call cannot return before the hold ends (released when the
// call returns or after 40 ms); where it gets the lock afterwards is the scheduler's choice.
// Mode "park" (First = "park"): the call, past its unlocked id check, is parked inside
// consensusHelper.CheckGroup and released when the switch has added J of its groups and is inside
// CheckGroup for the next one (or has ended); the switch waits there until the call has returned.
func concFork(o op) map[string]interface{} {
	gc := core.GetGroupChain()
	ev := map[string]interface{}{"event": "Fork", "g": o.G, "ids": o.Ids, "pres": presOf(o), "ok": false}
	anc := gc.GetGroupById(idOf(o.G))
	if anc == nil || o.B == nil {
		return ev
	}
	branch := []*types.Group{}
	pre := anc.Id
	for k, i := range o.Ids {
		if k < len(o.Pres) && o.Pres[k] != 98 {
			pre = idOf(o.Pres[k])
		}
		g := mkGroup(i, pre)
		branch = append(branch, g)
		pre = g.Id
	}
	park := o.First == "park"
	c0 := gc.Count()
	placed := false
	var okA bool
	var ga *types.Group
	aPre := none
	doneA := make(chan struct{})
	reachedA := make(chan struct{}, 1)
	gateA := make(chan struct{})
	released := false
	release := func() {
		if !released {
			released = true
			close(gateA)
			select {
			case <-doneA:
			case <-time.After(20 * time.Second):
				vutil.Fatalf("parked AddGroup did not return")
			}
		}
	}
	if park {
		helper.CheckGroupFn = func(g *types.Group) (bool, error) {
			if g == ga {
				reachedA <- struct{}{}
				<-gateA
				return true, nil
			}
			if placed {
				for k, i := range o.Ids {
					if bytes.Equal(g.Id, idOf(i)) && k == o.J {
						release()
					}
				}
			}
			return true, nil
		}
		defer func() { helper.CheckGroupFn = nil }()
	}
	// the scheduling point: the switch logs "Remove local group ..." after every removal
	pause := func() {
		if placed || gc.Count() != c0-1 {
			return
		}
		placed = true
		aPre = indexOf(gc.LastGroup().Id)
		ga = mkGroup(o.B.G, idOf(aPre))
		go func() {
			okA = gc.AddGroup(ga) == nil
			close(doneA)
		}()
		if park {
			select {
			case <-reachedA:
			case <-doneA: // refused by the unlocked id check
				released = true
			case <-time.After(20 * time.Second):
				vutil.Fatalf("AddGroup neither parked nor returned")
			}
			return
		}
		select {
		case <-doneA:
		case <-time.After(40 * time.Millisecond):
		}
	}
	var orig log.Logger
	core.VerifWrapSyncLogger(func(l log.Logger) log.Logger {
		orig = l
		return &pausingLogger{Logger: l, at: "Remove local group", f: pause}
	})
	ok := core.VerifGroupForkSwitch(anc, branch)
	core.VerifWrapSyncLogger(func(log.Logger) log.Logger { return orig })
	ev["ok"] = ok
	if !placed {
		return ev // fewer than two removals: an ordinary fork switch
	}
	if park {
		release()
	}
	<-doneA
	concForkPlaced++
	ev["event"] = "ConcFork"
	ev["mode"] = o.First
	ev["j"] = o.J
	ev["a"] = map[string]interface{}{"g": o.B.G, "pre": aPre}
	ev["okA"] = okA
	return ev
}

type pausingLogger struct {
	log.Logger
	at string
	f  func()
}

func (p *pausingLogger) Debugf(format string, params ...interface{}) {
	p.Logger.Debugf(format, params...)
	if strings.HasPrefix(format, p.at) {
		p.f()
	}
}

var concForkPlaced int

// restartInto drops the chain object and runs initGroupChain over the stores as they are; when the
// initialisation dies the event becomes RestartFailed (with the projection taken before the call).
func restartInto(call map[string]interface{}, before map[string]interface{}) (ok bool) {
	defer func() {
		if r := recover(); r != nil {
			call["panic"] = fmt.Sprint(r)
			call["event"] = "RestartFailed"
			call["state"] = before
			ok = false
		}
	}()
	core.VerifCloseGroupChain()
	core.VerifInitGroupChain(helper)
	return true
}

type crashNow struct{}

// crashLast repeats the last call of history h with a process death before its k-th physical
// write to the group store (k = 1, 2, ... until the call completes with fewer writes), each time
// over fresh stores with the calls before it replayed, then restarts the chain over the stores
// the dead call left and records the projection. The death is a panic raised inside the H2 write
// hook (before the write reaches LevelDB) and caught here: everything the call kept in memory is
// dropped with the chain object, the stores keep exactly the writes made before the death.
func crashLast(tr *vutil.Trace, root string, n int, h []op) int {
	lastOp := h[len(h)-1]
	if lastOp.Op != "Add" && lastOp.Op != "Remove" && lastOp.Op != "Fork" {
		return 0
	}
	done := 0
	for k := 1; k <= 40; k++ {
		fresh(root, 1000000+n*64+k)
		for _, o := range h[:len(h)-1] {
			runOp(o)
		}
		before := project()
		tr.Emit(map[string]interface{}{"event": "Reset", "state": before})
		writes := 0
		db.VerifOnWrite = func(kind string, key []byte, size int) {
			if !bytes.HasPrefix(key, []byte("group")) || bytes.HasPrefix(key, []byte("groupFork")) {
				return
			}
			writes++
			if writes == k {
				panic(crashNow{})
			}
		}
		var ev map[string]interface{}
		removed := core.GetGroupChain().LastGroup()
		died := func() (died bool) {
			defer func() {
				if r := recover(); r != nil {
					if _, ok := r.(crashNow); !ok {
						panic(r)
					}
					died = true
				}
			}()
			ev, _ = runOp(lastOp)
			return false
		}()
		db.VerifOnWrite = nil
		if !died {
			// the call made fewer than k writes and completed. One more death: after its last store
			// write and before the row of the sqlite group index is written / deleted (no store write
			// follows, so the write hook cannot place it): the call has completed, the sqlite half is
			// undone through the index's own exported functions, then the restart
			after := map[string]interface{}{"event": "Crash", "call": lastOp.Op, "k": k, "afterStore": true, "g": lastOp.G, "pre": lastOp.Pre}
			switch {
			case lastOp.Op == "Add" && ev != nil && ev["ok"] == true:
				after["pre"] = before["last"]
				if err := mysql.DeleteGroup(idOf(lastOp.G)); err != nil {
					vutil.Fatalf("sqlite: %v", err)
				}
			case lastOp.Op == "Remove" && ev != nil && ev["ok"] == true && removed != nil:
				if err := mysql.InsertGroup(removed); err != nil {
					vutil.Fatalf("sqlite: %v", err)
				}
			default:
				return done
			}
			if restartInto(after, before) {
				after["state"] = project()
			}
			tr.Emit(after)
			return done + 1
		}
		done++
		call := map[string]interface{}{"event": "Crash", "call": lastOp.Op, "k": k, "g": lastOp.G, "pre": lastOp.Pre}
		if lastOp.Op == "Add" && lastOp.Pre == 98 {
			call["pre"] = before["last"]
		}
		if lastOp.Op == "Fork" {
			call["ids"], call["pres"] = lastOp.Ids, presOf(lastOp)
		}
		_ = ev
		if restartInto(call, before) {
			call["state"] = project()
		}
		tr.Emit(call)
	}
	return done
}

func main() {
	out := flag.String("out", "trace.ndjson", "trace file")
	script := flag.String("script", "", "JSON file: list of histories (lists of ops) generated by TLC")
	nRandom := flag.Int("random", 0, "number of seeded random histories")
	length := flag.Int("len", 12, "length of a random history")
	scratch := flag.String("scratch", "", "scratch directory for the stores")
	salt := flag.Int64("salt", 0, "extra seed salt (shard number)")
	crash := flag.Bool("crash", false, "after every history: its last call again with a process death before each of its store writes, then a restart")
	cpuprof := flag.String("cpuprofile", "", "write a CPU profile (debugging the harness)")
	flag.Parse()
	if *cpuprof != "" {
		f, _ := os.Create(*cpuprof)
		pprof.StartCPUProfile(f)
		defer pprof.StopCPUProfile()
	}
	if *scratch == "" {
		vutil.Fatalf("--scratch required")
	}
	outAbs, _ := filepath.Abs(*out)
	var histories [][]op
	if *script != "" {
		b, err := os.ReadFile(*script)
		if err != nil {
			vutil.Fatalf("read script: %v", err)
		}
		if err := json.Unmarshal(b, &histories); err != nil {
			vutil.Fatalf("parse script: %v", err)
		}
	}
	rng := vutil.Rng(19 + 1000**salt)
	for i := 0; i < *nRandom; i++ {
		h := make([]op, 0, *length)
		for j := 0; j < *length; j++ {
			switch r := rng.Intn(10); {
			case r < 4:
				h = append(h, op{Op: "Add", G: 1 + rng.Intn(nIds), Pre: 98})
			case r < 5: // wrong predecessor
				h = append(h, op{Op: "Add", G: 1 + rng.Intn(nIds), Pre: rng.Intn(nIds + 1)})
			case r < 8:
				h = append(h, op{Op: "Remove"})
			case r < 9:
				ids := []int{1 + rng.Intn(nIds)}
				if rng.Intn(2) == 0 {
					ids = append(ids, 1+rng.Intn(nIds))
				}
				f := op{Op: "Fork", G: rng.Intn(nIds + 1), Ids: ids}
				if len(ids) == 2 && rng.Intn(3) == 0 {
					f.Pres = []int{98, rng.Intn(nIds + 1)}
				}
				h = append(h, f)
			default:
				h = append(h, op{Op: "Restart"})
			}
		}
		histories = append(histories, h)
	}

	tr := vutil.NewTrace(outAbs)
	calls, crashes := 0, 0
	for n, h := range histories {
		fresh(*scratch, n)
		tr.Emit(map[string]interface{}{"event": "Reset", "state": project()})
		for _, o := range h {
			ev, skipped := runOp(o)
			if skipped {
				continue
			}
			ev["state"] = project()
			tr.Emit(ev)
			calls++
		}
		if n%3 == 0 {
			lk, bad, smp := concurrentLookups()
			tr.Emit(map[string]interface{}{"event": "Readers", "lookups": lk, "mismatches": bad, "sample": smp, "state": project()})
		}
		if *crash && len(h) > 0 {
			crashes += crashLast(tr, *scratch, n, h)
		}
	}
	tr.Close()
	fmt.Printf("c19: histories=%d calls=%d crashes=%d placed=%d events=%d\n", len(histories), calls, crashes, concForkPlaced, tr.N)
}
