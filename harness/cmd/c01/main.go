// c01 executes the same input (parent state, headers, ordered transaction
// lists) N times, each time on a fresh process-local context (new AccountDB
// opened at the same root, caches warmed by touching accounts in a different
// order), and records the outcome of every block of every run (state root,
// receipts root, evicted list, executed order, receipt statuses and texts) as
// ndjson events for spec/ExecOrderTrace.tla.
//
// Inputs: (a) asset transfers with TLC-enumerated target maps (spec/ExecOrder:
// sender among the targets, addresses differing only in letter case, amounts
// around the sender's balance); (b) mixed histories of every transaction kind
// (the Ledger generator's sequences, executed through package ledgerops).
package main

import (
	"com.tuntun.rangers/node/src/service"
	"crypto/sha256"
	"encoding/hex"
	"encoding/json"
	"flag"
	"fmt"
	"math/big"
	"os"
	"path/filepath"
	"runtime"
	"strings"

	"com.tuntun.rangers/node/src/common"
	"com.tuntun.rangers/node/src/core"
	"com.tuntun.rangers/node/src/middleware/types"
	"com.tuntun.rangers/node/src/storage/account"
	"verif/harness/internal/execdrv"
	"verif/harness/internal/ledgerops"
	"verif/harness/internal/vutil"
)

type target struct {
	Who string `json:"who"`
	Amt int    `json:"amt"`
}

type transferInput struct {
	Bal       int      `json:"bal"`
	Targets   []target `json:"targets"`
	Sensitive bool     `json:"sensitive"`
}

func digest(res *execdrv.Result) (string, []bool) {
	if res == nil {
		return "none", nil
	}
	h := sha256.New()
	h.Write(res.Root.Bytes())
	h.Write(core.VerifCalcReceiptsTree(res.Receipts).Bytes())
	for _, e := range res.Evicted {
		h.Write(e.Bytes())
	}
	oks := []bool{}
	for i, t := range res.Executed {
		h.Write(t.Hash.Bytes())
		r := res.Receipts[i]
		h.Write([]byte(fmt.Sprintf("|%d|%s|%d|", r.Status, r.Msg, r.GasUsed)))
		for _, l := range r.Logs {
			b, _ := json.Marshal(l)
			h.Write(b)
		}
		oks = append(oks, r.Status == types.ReceiptStatusSuccessful)
	}
	return hex.EncodeToString(h.Sum(nil))[:24], oks
}

// warm touches the universe in a run-specific order so that the process-local
// caches (account objects, trie nodes) are populated differently in every run.
func warm(st *account.AccountDB, run int, extra []string) {
	addrs := append([]string{}, execdrv.Funded...)
	addrs = append(addrs, execdrv.Poor, common.FeeAccount.GetHexString())
	addrs = append(addrs, extra...)
	n := len(addrs)
	for i := 0; i < n; i++ {
		a := addrs[(i*(run%n+1)+run)%n]
		if (run+i)%3 != 0 {
			st.GetBalance(common.HexToAddress(a))
			st.GetNonce(common.HexToAddress(a))
		}
	}
}

func mixedCase(addr string, upper bool) string {
	if !upper {
		return strings.ToLower(addr)
	}
	return "0x" + strings.ToUpper(addr[2:])
}

func transferRuns(in transferInput, n int, id int) ([][]string, [][]bool) {
	sender := fmt.Sprintf("0x%040x", 0xc01000000+id)
	o1 := fmt.Sprintf("0x%040x", 0xabcdef000+id) // has letters: the two case variants differ
	o2 := fmt.Sprintf("0x%040x", 0x222000000+id)
	who := map[string]string{"self": sender, "o1": mixedCase(o1, false), "o1b": mixedCase(o1, true), "o2": o2}
	// the JSON document order of the targets is the order TLC listed them in; Go's map iteration
	// then starts at a random position of it
	parts := []string{}
	for _, t := range in.Targets {
		parts = append(parts, fmt.Sprintf("%q:{\"balance\":\"%d\"}", who[t.Who], t.Amt))
	}
	extra := "{" + strings.Join(parts, ",") + "}"
	runs := [][]string{}
	oks := [][]bool{}
	for r := 0; r < n; r++ {
		st := execdrv.FreshState()
		warm(st, r, []string{sender, o1, o2})
		// block 1 funds the sender with exactly bal + the flat fee, so that the running balance
		// of the transfer starts at bal
		fund := fmt.Sprintf("{%q:{\"balance\":\"%d.0001\"}}", sender, in.Bal)
		t1 := execdrv.NewTx(types.TransactionTypeOperatorEvent, execdrv.Funded[0], "", "", fund, 1, fmt.Sprintf("c01-%d-f", id))
		d1, _ := digest(execdrv.Execute(st, 1, []*types.Transaction{t1}))
		t2 := execdrv.NewTx(types.TransactionTypeOperatorEvent, sender, "", "", extra, 2, fmt.Sprintf("c01-%d-t", id))
		d2, ok2 := digest(execdrv.Execute(st, 2, []*types.Transaction{t2}))
		runs = append(runs, []string{d1, d2})
		oks = append(oks, ok2)
	}
	return runs, oks
}

// noise runs an unrelated history through the same process-wide executors, managers and pool on
// its own state, in a loop, on another goroutine - as the node's game executor pre-executes
// client transactions while blocks are being executed. Block execution must not depend on it.
func noise(stop chan struct{}, done chan struct{}, ops []ledgerops.AbsOp) {
	defer close(done)
	defer func() { recover() }() // a foreign user that dies is not the replica's business
	for k := 0; ; k++ {
		w := ledgerops.NewWorld(900000 + k)
		for _, o := range ops {
			select {
			case <-stop:
				return
			default:
			}
			w.Step(nil, o, ledgerops.Amounts[(o.V+1)%3], "")
		}
	}
}

func mixedRuns(ops []ledgerops.AbsOp, n int, id int) [][]string {
	runs := [][]string{}
	for r := 0; r < n; r++ {
		// every second run executes with a concurrent foreign user of the executors
		var stop, done chan struct{}
		if r%2 == 1 {
			stop, done = make(chan struct{}), make(chan struct{})
			rev := make([]ledgerops.AbsOp, 0, len(ops))
			for i := len(ops) - 1; i >= 0; i-- {
				rev = append(rev, ops[i])
			}
			go noise(stop, done, rev)
		}
		ds := []string{}
		func() {
			// a replica whose execution panics has produced a different outcome than one that does not
			defer func() {
				if e := recover(); e != nil {
					ds = append(ds, fmt.Sprintf("PANIC: %v", e))
				}
			}()
			w := ledgerops.NewWorld(id)
			warm(w.St, r, nil)
			for _, o := range ops {
				d, _ := digest(w.Step(nil, o, ledgerops.Amounts[o.V%3], ""))
				ds = append(ds, d)
			}
			d, _ := digest(w.Step(nil, ledgerops.AbsOp{Op: "MatureRewards"}, "", ""))
			ds = append(ds, d)
		}()
		runs = append(runs, ds)
		if stop != nil {
			close(stop)
			<-done
		}
	}
	return runs
}

// sharedRewardRuns: several proposers registered in ONE block with the same reward account (the
// account check does not see miners created earlier in the same block), then empty blocks whose
// reward calculation ranges over the proposer map and adds the shares of that account.
func sharedRewardRuns(n int, id int) [][]string {
	runs := [][]string{}
	acct := execdrv.Funded[0]
	stakes := []uint64{2000, 3000, 5000, 7000}
	for r := 0; r < n; r++ {
		st := execdrv.FreshState()
		warm(st, r, nil)
		list := []*types.Transaction{}
		for i, sk := range stakes {
			mid := sha256.Sum256([]byte(fmt.Sprintf("c01-shared-%d-%d", id, i)))
			m := types.Miner{Id: mid[:], PublicKey: make([]byte, 128), VrfPublicKey: make([]byte, 32), Type: 1, Stake: sk,
				Account: common.FromHex(acct)}
			m.PublicKey[0], m.VrfPublicKey[0] = 1, 1
			d, _ := json.Marshal(m)
			list = append(list, execdrv.NewTx(types.TransactionTypeMinerApply, acct, "", string(d), "", uint64(i+1), fmt.Sprintf("c01-sh-%d-%d", id, i)))
		}
		ds := []string{}
		d, _ := digest(execdrv.Execute(st, 1, list))
		ds = append(ds, d)
		// the new proposers take part in the reward split from their apply height (block + 300) on
		for _, h := range []uint64{302, 303} {
			d, _ := digest(execdrv.Execute(st, h, nil))
			ds = append(ds, d)
		}
		runs = append(runs, ds)
	}
	return runs
}

// destroyedThenFundedRuns: blocks in which contracts self-destruct and their addresses are credited
// afterwards in the same block (the credit lives in the token contract's storage, the account
// objects are deleted when the block is finalised: several dirty objects whose flush order must
// not matter), with other value-moving transactions around them.
func destroyedThenFundedRuns(n int, id int) [][]string {
	runs := [][]string{}
	ops := []ledgerops.AbsOp{
		{Op: "Deploy", A: 1, B: 1, V: 2}, {Op: "Deploy", A: 2, B: 2, V: 1}, {Op: "Deploy", A: 3, B: 3, V: 2},
		{Op: "SelfDestructFunded", A: 2, B: 1, V: 1}, {Op: "Transfer", A: 3, B: 2, V: 1},
		{Op: "SelfDestructFunded", A: 1, B: 3, V: 2}, {Op: "SelfDestructFunded", A: 3, B: 2, V: 0},
		{Op: "Deploy", A: 2, B: 1, V: 1}, {Op: "SelfDestruct", A: 3, B: 1, V: 1}, {Op: "Transfer", A: 1, B: 3, V: 2},
	}
	for r := 0; r < n; r++ {
		w := ledgerops.NewWorld(id)
		warm(w.St, r, nil)
		ds := []string{}
		for _, o := range ops {
			d, _ := digest(w.Step(nil, o, ledgerops.Amounts[o.V%3], ""))
			ds = append(ds, d)
		}
		runs = append(runs, ds)
	}
	return runs
}

// scratchMemoryRuns: a contract that reads memory it never wrote (MLOAD far above anything it
// stored) and keeps what it read in storage, executed after other frames of the same process
// filled their memory with non-zero bytes. Fresh frame memory is all zero, so every replica must
// store zeros - whatever the process executed before.
func scratchMemoryRuns(n int, id int) [][]string {
	initCode := func(rt []byte) string {
		c := append([]byte{0x60, byte(len(rt)), 0x60, 0x0c, 0x60, 0x00, 0x39, 0x60, byte(len(rt)), 0x60, 0x00, 0xf3}, rt...)
		return "0x" + hex.EncodeToString(c)
	}
	// writer: CALLDATACOPY(0, 0, CALLDATASIZE); STOP
	writer := []byte{0x36, 0x60, 0x00, 0x60, 0x00, 0x37, 0x00}
	// reader: for off in {0x80, 0x100, 0x400, 0x1000}: SSTORE(off, MLOAD(off)); LOG0(0x2000, 0x40); STOP
	reader := []byte{}
	for _, off := range []int{0x80, 0x100, 0x400, 0x1000} {
		reader = append(reader, 0x61, byte(off>>8), byte(off), 0x51, 0x61, byte(off>>8), byte(off), 0x55)
	}
	reader = append(reader, 0x60, 0x40, 0x61, 0x20, 0x00, 0xa0, 0x00)
	// what the earlier frames leave in their memory differs from replica to replica
	fillOf := func(r int) string { return "0x" + strings.Repeat(fmt.Sprintf("%02x", 0x11*(r%7+1)), 0x1800) }
	cd := func(abi string) string {
		d, _ := json.Marshal(types.ContractData{GasLimit: "3000000", TransferValue: "0", AbiData: abi})
		return string(d)
	}
	runs := [][]string{}
	for r := 0; r < n; r++ {
		ds := []string{}
		func() {
			defer func() {
				if e := recover(); e != nil {
					ds = append(ds, fmt.Sprintf("PANIC: %v", e))
				}
			}()
			st := execdrv.FreshState()
			warm(st, r, nil)
			src := execdrv.Funded[r%3]
			_ = src
			t1 := execdrv.NewTx(types.TransactionTypeContract, execdrv.Funded[0], "", cd(initCode(writer)), "", 1, fmt.Sprintf("c01-sm-%d-w", id))
			t2 := execdrv.NewTx(types.TransactionTypeContract, execdrv.Funded[1], "", cd(initCode(reader)), "", 2, fmt.Sprintf("c01-sm-%d-r", id))
			res := execdrv.Execute(st, 1, []*types.Transaction{t1, t2})
			d, _ := digest(res)
			ds = append(ds, d)
			if len(res.Receipts) != 2 {
				ds = append(ds, fmt.Sprintf("deploys:%d", len(res.Receipts)))
				return
			}
			wa, ra := res.Receipts[0].ContractAddress.GetHexString(), res.Receipts[1].ContractAddress.GetHexString()
			// several writer frames (more in later replicas), then the reader, in one block; then once more
			list := []*types.Transaction{}
			for k := 0; k < 1+r%4; k++ {
				list = append(list, execdrv.NewTx(types.TransactionTypeContract, execdrv.Funded[k%3], wa, cd(fillOf(r)), "", uint64(10+k), fmt.Sprintf("c01-sm-%d-f%d", id, k)))
			}
			list = append(list, execdrv.NewTx(types.TransactionTypeContract, execdrv.Funded[2], ra, cd("0x"), "", 20, fmt.Sprintf("c01-sm-%d-x", id)))
			// the digest must not depend on how many writer calls preceded: compare only the reader's effect
			res2 := execdrv.Execute(st, 2, list)
			slots := []string{}
			for _, off := range []int{0x80, 0x100, 0x400, 0x1000} {
				slots = append(slots, hex.EncodeToString(st.GetData(common.HexToAddress(ra), common.BigToHash(big.NewInt(int64(off))).Bytes())))
			}
			logs := 0
			for _, rc := range res2.Receipts {
				for _, l := range rc.Logs {
					logs++
					slots = append(slots, hex.EncodeToString(l.Data))
				}
			}
			ds = append(ds, fmt.Sprintf("reader-slots:%v logs:%d", slots, logs))
		}()
		runs = append(runs, ds)
	}
	return runs
}

// stakeChangeWithRewardRuns: two proposers apply; once both count for the reward split (from their
// apply height) a block changes the stake of one of them (an add-stake top-up after many filler
// transfers) - the reward of that very block is computed from the stakes: whether it sees the
// top-up must not depend on scheduling. Executed with different GOMAXPROCS settings.
func stakeChangeWithRewardRuns(n int, id int) [][]string {
	runs := [][]string{}
	for r := 0; r < n; r++ {
		ds := []string{}
		func() {
			defer func() {
				if e := recover(); e != nil {
					ds = append(ds, fmt.Sprintf("PANIC: %v", e))
				}
			}()
			old := runtime.GOMAXPROCS(0)
			if r%4 == 0 {
				runtime.GOMAXPROCS(1)
			}
			defer runtime.GOMAXPROCS(old)
			st := execdrv.FreshState()
			warm(st, r, nil)
			list := []*types.Transaction{}
			ids := [][]byte{}
			for i, sk := range []uint64{2000, 2500} {
				mid := sha256.Sum256([]byte(fmt.Sprintf("c01-stk-%d-%d", id, i)))
				ids = append(ids, mid[:])
				m := types.Miner{Id: mid[:], PublicKey: make([]byte, 128), VrfPublicKey: make([]byte, 32), Type: 1, Stake: sk,
					Account: common.FromHex(execdrv.Funded[i])}
				m.PublicKey[0], m.VrfPublicKey[0] = 1, 1
				d, _ := json.Marshal(m)
				list = append(list, execdrv.NewTx(types.TransactionTypeMinerApply, execdrv.Funded[i], "", string(d), "", uint64(i+1), fmt.Sprintf("c01-stk-%d-%d", id, i)))
			}
			d0, _ := digest(execdrv.Execute(st, 1, list))
			ds = append(ds, d0)
			// block 305: fillers, then the top-up of the second proposer, then more fillers
			blk := []*types.Transaction{}
			for k := 0; k < 40; k++ {
				tgt, _ := json.Marshal(map[string]types.TransferData{execdrv.Funded[(k+1)%3]: {Balance: "0.01"}})
				blk = append(blk, execdrv.NewTx(types.TransactionTypeOperatorEvent, execdrv.Funded[k%3], "", "", string(tgt), uint64(100+k), fmt.Sprintf("c01-stk-%d-f%d", id, k)))
				if k == 25 {
					m := types.Miner{Id: ids[1], Stake: 500}
					d, _ := json.Marshal(m)
					blk = append(blk, execdrv.NewTx(types.TransactionTypeMinerAdd, execdrv.Funded[1], "", string(d), "", 900, fmt.Sprintf("c01-stk-%d-add", id)))
				}
			}
			for _, h := range []uint64{305, 306} {
				var l []*types.Transaction
				if h == 305 {
					l = blk
				}
				d, _ := digest(execdrv.Execute(st, h, l))
				ds = append(ds, d)
			}
		}()
		runs = append(runs, ds)
	}
	return runs
}

// executedStoreHistoryRuns: the same block on the same parent state, once on a node whose pool has
// never seen its transactions and once on a node whose executed store already holds them (a node
// that had adopted them on another branch, or re-executes after a restart). Execution depends on
// the parent state, the header and the transaction list only.
func executedStoreHistoryRuns(n int, id int) [][]string {
	runs := [][]string{}
	pool := service.GetTransactionPool()
	for r := 0; r < n; r++ {
		ds := []string{}
		func() {
			defer func() {
				if e := recover(); e != nil {
					ds = append(ds, fmt.Sprintf("PANIC: %v", e))
				}
			}()
			st := execdrv.FreshState()
			warm(st, r, nil)
			list := []*types.Transaction{}
			for k := 0; k < 3; k++ {
				tgt, _ := json.Marshal(map[string]types.TransferData{execdrv.Funded[(k+1)%3]: {Balance: "0.5"}})
				list = append(list, execdrv.NewTx(types.TransactionTypeOperatorEvent, execdrv.Funded[k%3], "", "", string(tgt), uint64(1+k), fmt.Sprintf("c01-exs-%d-%d", id, k)))
			}
			cd, _ := json.Marshal(types.ContractData{GasLimit: "300000", TransferValue: "0", AbiData: "0x600160005500"})
			list = append(list, execdrv.NewTx(types.TransactionTypeContract, execdrv.Funded[0], "", string(cd), "", 9, fmt.Sprintf("c01-exs-%d-c", id)))
			hdr := &types.BlockHeader{Height: 7, Hash: common.BytesToHash(common.Sha256([]byte(fmt.Sprintf("c01-exs-blk-%d", id))))}
			if r%2 == 1 {
				rs := types.Receipts{}
				for _, t := range list {
					rc := types.NewReceipt(nil, false, 0, 7, "", t.Source, "")
					rc.TxHash = t.Hash
					rs = append(rs, rc)
				}
				pool.MarkExecuted(hdr, rs, list, nil)
			}
			d, _ := digest(execdrv.Execute(st, 7, list))
			ds = append(ds, d)
			if r%2 == 1 {
				pool.UnMarkExecuted(&types.Block{Header: hdr, Transactions: list})
				ev := []common.Hash{}
				for _, t := range list {
					ev = append(ev, t.Hash)
				}
				pool.MarkExecuted(&types.BlockHeader{}, nil, nil, ev)
			}
		}()
		runs = append(runs, ds)
	}
	return runs
}

// castThenVerify: a proposer casts a block whose execution hits the wall-clock cut-off
// (situation "casting", 3 s); the transaction list it reports, executed by a verifier on a fresh
// state of the same parent, must give the proposer's state root, receipts and evicted list.
func castThenVerify(id int) []string {
	st := execdrv.FreshState()
	// init code JUMPDEST PUSH1 0 JUMP: burns its whole gas limit
	loop := "0x5b600056"
	list := []*types.Transaction{}
	for i := 0; i < 400; i++ {
		d, _ := json.Marshal(types.ContractData{GasLimit: "30000000", TransferValue: "0", AbiData: loop})
		list = append(list, execdrv.NewTx(types.TransactionTypeContract, execdrv.Funded[i%3], "", string(d), "", uint64(i+1), fmt.Sprintf("c01-cast-%d-%d", id, i)))
	}
	blk := &types.Block{Header: execdrv.Header(1), Transactions: list}
	root, evicted, executed, receipts := core.VerifExecuteBlock(st, blk, "casting")
	dc, _ := digest(&execdrv.Result{Root: root, Evicted: evicted, Executed: executed, Receipts: receipts})
	st2 := execdrv.FreshState()
	dv, _ := digest(execdrv.Execute(st2, 1, executed))
	return []string{dc, dv, fmt.Sprintf("%d", len(executed))}
}

func main() {
	out := flag.String("out", "trace.ndjson", "")
	transfers := flag.String("transfers", "", "TLC transfer inputs (ExecOrder INPUT lines)")
	mixed := flag.String("mixed", "", "TLC op sequences (Ledger HIST lines)")
	nSens := flag.Int("n-sensitive", 64, "runs per order-sensitive transfer input")
	nPlain := flag.Int("n-plain", 8, "runs per other input")
	scratch := flag.String("scratch", "", "")
	shared := flag.Int("shared-reward", 0, "runs of the shared-reward-account input (0: skip)")
	cast := flag.Bool("cast", false, "run the casting cut-off scenario (takes > 3 s)")
	destroyed := flag.Int("destroyed-funded", 0, "runs of the destroyed-then-funded input (0: skip)")
	scratchMem := flag.Int("scratch-memory", 0, "runs of the uninitialised-memory reader input (0: skip)")
	stakeReward := flag.Int("stake-reward", 0, "runs of the stake-change-with-reward input (0: skip)")
	execStore := flag.Int("executed-store", 0, "runs of the executed-store-history input (0: skip)")
	flag.Parse()
	if *scratch == "" {
		vutil.Fatalf("--scratch required")
	}
	outAbs, _ := filepath.Abs(*out)
	abs := func(p string) string {
		if p == "" {
			return ""
		}
		a, _ := filepath.Abs(p)
		return a
	}
	tp, mp := abs(*transfers), abs(*mixed)
	ledgerops.Rt = ledgerops.BuildRuntime()
	execdrv.Boot(*scratch)
	tr := vutil.NewTrace(outAbs)
	nIn, nRuns := 0, 0
	if tp != "" {
		b, err := os.ReadFile(tp)
		if err != nil {
			vutil.Fatalf("read transfers: %v", err)
		}
		var ins []transferInput
		if err := json.Unmarshal(b, &ins); err != nil {
			vutil.Fatalf("parse transfers: %v", err)
		}
		for i, in := range ins {
			n := *nPlain
			if len(in.Targets) > 1 {
				n = *nSens
			}
			runs, oks := transferRuns(in, n, i)
			last := make([]bool, len(oks))
			for k, o := range oks {
				last[k] = len(o) == 1 && o[0]
			}
			tr.Emit(map[string]interface{}{"event": "Replicas", "class": "transfer", "bal": in.Bal, "targets": in.Targets,
				"runs": runs, "transferOk": last})
			nIn++
			nRuns += n
		}
	}
	if mp != "" {
		b, err := os.ReadFile(mp)
		if err != nil {
			vutil.Fatalf("read mixed: %v", err)
		}
		var hs [][]ledgerops.AbsOp
		if err := json.Unmarshal(b, &hs); err != nil {
			vutil.Fatalf("parse mixed: %v", err)
		}
		for i, h := range hs {
			kinds := []string{}
			for _, o := range h {
				kinds = append(kinds, o.Op)
			}
			runs := mixedRuns(h, *nPlain, 100000+i)
			tr.Emit(map[string]interface{}{"event": "Replicas", "class": "mixed", "bal": 0, "targets": []target{}, "ops": kinds,
				"runs": runs, "transferOk": []bool{}})
			nIn++
			nRuns += *nPlain
		}
	}
	if *shared > 0 {
		runs := sharedRewardRuns(*shared, 7)
		tr.Emit(map[string]interface{}{"event": "Replicas", "class": "shared-reward-account", "bal": 0, "targets": []target{},
			"runs": runs, "transferOk": []bool{}})
		nIn++
		nRuns += *shared
	}
	if *destroyed > 0 {
		runs := destroyedThenFundedRuns(*destroyed, 11)
		tr.Emit(map[string]interface{}{"event": "Replicas", "class": "destroyed-then-funded", "bal": 0, "targets": []target{},
			"runs": runs, "transferOk": []bool{}})
		nIn++
		nRuns += *destroyed
	}
	if *scratchMem > 0 {
		runs := scratchMemoryRuns(*scratchMem, 13)
		tr.Emit(map[string]interface{}{"event": "Replicas", "class": "uninitialised-memory-reader", "bal": 0, "targets": []target{},
			"runs": runs, "transferOk": []bool{}})
		nIn++
		nRuns += *scratchMem
	}
	if *stakeReward > 0 {
		runs := stakeChangeWithRewardRuns(*stakeReward, 17)
		tr.Emit(map[string]interface{}{"event": "Replicas", "class": "stake-change-with-reward", "bal": 0, "targets": []target{},
			"runs": runs, "transferOk": []bool{}})
		nIn++
		nRuns += *stakeReward
	}
	if *execStore > 0 {
		runs := executedStoreHistoryRuns(*execStore, 19)
		tr.Emit(map[string]interface{}{"event": "Replicas", "class": "executed-store-history", "bal": 0, "targets": []target{},
			"runs": runs, "transferOk": []bool{}})
		nIn++
		nRuns += *execStore
	}
	if *cast {
		r := castThenVerify(9)
		// the proposer's outcome and the verifier's outcome of the reported list are two "runs"
		tr.Emit(map[string]interface{}{"event": "Replicas", "class": "cast-cut-off-then-verify", "bal": 0, "targets": []target{},
			"runs": [][]string{{r[0]}, {r[1]}}, "executed": r[2], "transferOk": []bool{}})
		nIn++
		nRuns += 2
	}
	tr.Close()
	fmt.Printf("c01: inputs=%d runs=%d events=%d\n", nIn, nRuns, tr.N)
}
